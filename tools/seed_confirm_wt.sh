#!/bin/sh
# tools/seed_confirm_wt.sh <deliverable dir> <worktree> <baseline failing-set file>
# In the seed's own scratch worktree: demo on the clean tree, demo with the patch, whole test suite with the patch;
# leaves the patch applied (for VERIF_REPO=<worktree> ./check ...). Prints one summary line.
D=$1; WT=$2; BASE=$3
cd "$WT" || exit 2
git checkout -q -- . ; git clean -fdq -e __pycache__ src tests 2>/dev/null
run() { PYTHONPATH=$WT/src MPLBACKEND=Agg timeout 900 /venv/bin/python "$@"; }
run "$D/demo.py" >/dev/null 2>&1; A=$?
git apply "$D/patch.diff" || { echo "$(basename $D): patch does not apply"; exit 2; }
run "$D/demo.py" >/dev/null 2>&1; B=$?
run -m pytest -q -p no:cacheprovider --timeout=900 --continue-on-collection-errors -rfE 2>&1 | grep -E "^(FAILED|ERROR)" | sed 's/ - .*//' | sort > "$D/after_set.txt"
if cmp -s "$BASE" "$D/after_set.txt"; then T=same; else T=DIFFERENT; fi
echo "$(basename $D): demo clean rc=$A, demo patched rc=$B, failing tests $T ($(wc -l < $D/after_set.txt) failing)"
[ $A -eq 0 ] && [ $B -ne 0 ] && [ $T = same ]
