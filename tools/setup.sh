#!/bin/sh
# Offline setup: nothing to build. Verify the tools the checks need are present.
set -e
cd "$(dirname "$0")/.."
mkdir -p .scratch evidence/replay
test -f /opt/veriftools/tla/tla2tools.jar
java -version >/dev/null 2>&1
/venv/bin/python -c "import sys; sys.path.insert(0, '/repo/src'); import pyimpspec, numpy"
chmod +x check tools/*.sh
echo "setup ok"
