#!/bin/sh
# Run the repository's pinned test suite with the verification guard OFF and compare with
# /root/.vp/BASELINE.json (stable_pass). Exit 0 iff every stable test still passes.
unset PYIMPSPEC_VERIF
OUT=${1:-/verif/.scratch/baseline.junit.xml}
mkdir -p "$(dirname "$OUT")"
cd /repo && /venv/bin/python -m pytest -ra -q -p no:cacheprovider --timeout=900 --continue-on-collection-errors --junitxml="$OUT" > "$OUT.log" 2>&1
/venv/bin/python - "$OUT" <<'PY'
import json, sys, xml.etree.ElementTree as ET
base = json.load(open('/root/.vp/BASELINE.json'))
want = set(base['stable_pass'])
root = ET.parse(sys.argv[1]).getroot()
passed = set()
for tc in root.iter('testcase'):
    tid = f"{tc.get('classname')}::{tc.get('name')}"
    if not any(ch.tag in ('failure', 'error', 'skipped') for ch in tc):
        passed.add(tid)
missing = sorted(want - passed)
print(f"baseline: {len(want & passed)}/{len(want)} stable tests pass; {len(passed - want)} extra passes")
for m in missing[:20]:
    print("  MISSING", m)
sys.exit(1 if missing else 0)
PY
