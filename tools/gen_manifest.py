#!/usr/bin/env python3
"""Regenerate /verif/MANIFEST.json from the table below (single source of truth)."""
import json, os, subprocess

V = os.path.dirname(os.path.dirname(os.path.abspath(__file__)))

CHECKS = {
    "C05": dict(
        text="Every call history of the DataSet state machine (specs/DataSet.tla: construct asc/desc with masks, set_mask, "
             "low/high pass, subtract, to_dict/from_dict incl. dropped keys, v1 layout and JSON, duplicate, average) up to the "
             "stated bounds is enumerated by TLC; the model's invariants (descending order, views partition, order "
             "insensitivity) are checked in every model state, and every history is replayed through the real DataSet "
             "with the full projection (ids from f and Z, mask, three views, to_dict) compared with the model after every call.",
        design_ref="§4 C05",
        note="Bounded: N<=3 points, <=5 calls; point identity via f=10^id, Z=z(1-0.5j); TLC 1.8, the TLA+ value reader and the replay driver are trusted.",
        technique="TLA+ spec (DataSet.tla) + TLC exhaustive BFS; spec->code replay of every TLC-generated history with per-step state comparison",
    ),
    "C06": dict(
        text="specs/Table.tla transcribes column detection (alias table and key order of _detect_columns, sign markers), the choice of the "
             "real/imaginary vs modulus/phase pair and sweep splitting, and spans the documented conventions: every alias x sign marker x "
             "unit suffix in every column order (f/re/im, f/mod/phase, all five), x separator, decimal mark, row order, 1..3 sweeps, "
             "letter case, 1..4 points, plus the instrument text layouts. TLC checks that every header row is detected as intended and "
             "that sweep splitting partitions every frequency sequence (or refuses it). Each configuration (a stated fraction, chosen "
             "with the seed) is written as a real file and parsed with parse_data: number of data sets, frequencies, impedances and the "
             "sign of Im must match; the table printed by the CLI 'parse' command is re-parsed. specs/Dispatch.tla models parse_data's "
             "dispatch (file_format / extension resolution, the csv retry, the brute-force loop over a *set* of parsers whose order "
             "differs between processes); what each parser does with each kind of content is measured from the tree under test and "
             "handed to TLC, which explores every brute-force order (WinnerIsRight, Recognised, GarbageRefused); every (content, "
             "extension, file_format) configuration is then run through parse_data with the parser calls recorded and validated by TLC "
             "(TraceDispatch.tla).",
        design_ref="§4 C06",
        note="One family of spectra; pandas' tokenising is exercised but not modelled; instrument files are written from the structure of tests/data.*; header text is space-free for space/semicolon separated files (documented contract).",
        technique="TLA+ spec (Table.tla, Dispatch.tla) + TLC enumeration of header rows, file options, dispatch configurations and brute-force orders; spec->code replay by writing every configuration to a real file and parsing it; code->spec batched trace validation of the recorded parser calls (TraceDispatch.tla)",
    ),
    "C08": dict(
        text="specs/Analysis.tla states the life cycle of an analysis call over DataSet.tla's abstraction (reads only through the unmasked "
             "view, result frequencies = unmasked ids, residual / pseudo chi-squared / model impedance identities, independence of the "
             "masked points' payload, inputs untouched); specs/AnalysisConfigs.tla enumerates entry point x variant x mask pattern x input "
             "order. Each configuration is run for real three times (masked points holding consistent, huge and tiny values) on a tracing "
             "DataSet that logs every getter call with its masked argument and every direct access to the private arrays; the harness "
             "evaluates the numeric witnesses on the real result objects and specs/TraceAnalysis.tla validates all recorded runs in one "
             "TLC batch.",
        design_ref="§4 C08",
        note="One 25-point mock spectrum family; the numeric identities are evaluated by the harness (rtol 1e-9), TLC sees the witnesses as booleans; BHT runs with a re-seeded global RNG.",
        technique="TLA+ spec (Analysis.tla) + TLC-enumerated configurations driven into the code; code->spec batched trace validation (TraceAnalysis.tla)",
    ),
    "C12": dict(
        text="specs/Fit.tla states fit_circuit as an action on the parameter store (non-fixed values within their limits, fixed values "
             "kept exactly, limits/flags/labels unchanged, table = returned circuit, user constraints hold, input untouched, and recovery "
             "of the generating values for self-generated data); specs/FitConfigs.tla enumerates family x fixed pattern x limit box x "
             "method x weight x constraint. A seeded sample of configurations is fitted for real; the harness abstracts each returned "
             "circuit into the comparisons of Fit.tla and specs/TraceFit.tla decides every recorded fit (invariants vs recovery).",
        design_ref="§4 C12",
        note="Six circuit families with fixed generating values; recovery only required for method='auto', weight='auto' with default or tight limits (tolerance 1e-3, pseudo chi-squared < 1e-9); FittingError outcomes are counted, not judged.",
        technique="TLA+ spec (Fit.tla) + TLC-enumerated configurations driven into the code; code->spec batched trace validation (TraceFit.tla)",
    ),
    "C14": dict(
        text="The parameter store of Element (specs/ElementParams.tla: set_values/set_lower_limits/set_upper_limits/set_fixed in "
             "keyword, positional and malformed forms, set_label, reset_parameter(s), copy/deepcopy, to_string->parse_cdc, two live "
             "instances) is model-checked for lower<upper, clamping, refusal-is-a-no-op, reset-restores and 'the implementation's "
             "copy/reset order is never refused' in every reachable state; every history is replayed on every registered "
             "(class, parameter) role of the matching limit shape and compared with the model after every call.",
        design_ref="§4 C14",
        note="Bounded: histories <=4 calls, 9-rank value grid per parameter placed around that parameter's class defaults; TLC, the value reader and the replay driver are trusted.",
        technique="TLA+ spec (ElementParams.tla) + TLC exhaustive BFS per limit shape; spec->code replay of every history on every registered class with per-step comparison",
    ),
    "C15": dict(
        text="The registry (specs/Registry.tla: register_element with valid/duplicate/invalid symbols, consistent/inconsistent "
             "classes and the private flag, remove_elements, reset, Class.set_default_values, reset_default_parameter_values) is "
             "model-checked for built-ins preserved, no shadowing, inconsistent classes refused, private flags only on registered "
             "symbols; every history is replayed with freshly created Element subclasses and the four get_elements views, parse_cdc "
             "on every probe symbol and all class defaults are compared with the model after every call, and reset() must give "
             "back the freshly imported views.",
        design_ref="§4 C15",
        note="Bounded: histories <=4 calls (model invariants to depth 7); built-ins abstracted to L, La, Ls, R, K; TLC and the replay driver are trusted.",
        technique="TLA+ spec (Registry.tla) + TLC exhaustive BFS; spec->code replay of every history with per-step comparison of all registry observations",
    ),
    "C01": dict(
        text="specs/Impedance.tla grows every circuit up to the bounds with a builder state machine over leaves with exact semantics "
             "(R 0/1/2/inf, C, L), evaluates the composition law (exact Gaussian rationals with an infinite value) and a transcription "
             "of the library's vectorised Series/Parallel evaluation incl. its open/short index bookkeeping on every frequency vector, "
             "and TLC checks law = implementation and array = pointwise in every complete state. Every complete circuit is replayed: "
             "built from objects, via parse_cdc and via CircuitBuilder, evaluated through Circuit/Connection.get_impedances and "
             "simulate_spectrum as an array and one frequency at a time, and compared with the law's exact value. Random circuits "
             "over every registered element type are compared with an independent pointwise composition.",
        design_ref="§4 C01",
        note="Bounded: <=4 leaves, depth <=3, w in {1,2}; exact semantics for R/C/L leaves only (other types opaque); the exact-resonance array raise is a recorded known finding.",
        technique="TLA+ spec (Impedance.tla) + TLC exhaustive BFS over builder states; spec->code replay of every circuit x frequency vector against the law's exact values",
    ),
    "C02": dict(
        text="PARTIAL. specs/Elements.tla owns the discrete parts of the property: the numeric and the symbolic dispatch of the general "
             "transmission line model over all 243 open/short/finite configurations of its five sub-circuits (TLC checks the two "
             "transcribed tables agree), the index bookkeeping that scatters 0 / infinite-frequency limits back into a frequency vector, "
             "and the corner grid (lower corner, default, upper corner, off-default) of every registered element class. At every "
             "enumerated point the harness compares get_impedances with the lambdified to_sympy(substitute=True) at 31 frequencies, "
             "records which _eq method actually ran for each Tlm configuration, and checks reported limits against nearby finite "
             "frequencies. The numeric equality is a differential comparison made by the harness - TLC cannot evaluate coth or "
             "(j w)^n - so the level is the enumeration's, not a proof about the continuum.",
        design_ref="§4 C02",
        note="Corners and off-default points, not the continuum; non-finite values are skipped; whole-circuit symbolic-vs-numeric agreement is covered only through the Tlm container configurations.",
        technique="TLA+ spec (Elements.tla) + TLC enumeration of dispatch configurations / corner vectors; spec->code replay with a differential numeric-vs-symbolic comparison in the harness",
        category="exploration",
    ),
    "C03": dict(
        text="specs/CDC.tla models the scanner (character level), the shift/reduce parser with its shared stack, exact decimal "
             "arithmetic and the printer; specs/CDCRound.tla enumerates (generator tree, spelling options) pairs - connection shapes, "
             "parameter value/limit/fixed grids around the class defaults, labels, container sub-circuits (open/short/bare list/"
             "bracketed/nested) x omitted defaults, omitted/percent limits, f/F, short|zero, open|inf, bare lists, white space, "
             "version header, implicit outer series, decimals - and TLC checks on the model that every spelling denotes the "
             "generator's circuit and that printing is idempotent. Every pair is replayed: the spelled text goes through the real "
             "parse_cdc and is compared with the generator's tree (the oracle); canonical pairs are also built through the API, "
             "serialised, parsed back, deep-copied, re-serialised and simulated.",
        design_ref="§4 C03",
        note="Bounded trees (<=4 leaves, depth <=3, one varied leaf per tree); classes R, C, L, Q, Tlm; exactly printable grid values; labels with unbalanced braces or starting with punctuation are recorded known findings.",
        technique="TLA+ spec (CDC.tla, CDCRound.tla) + TLC over all (tree, spelling) pairs; spec->code replay of every generated text with the generator tree as oracle",
    ),
    "C04": dict(
        text="specs/CDCTotal.tla feeds every sequence of <=N lexical atoms (several alphabets incl. composite atoms) to the "
             "scanner/parser model of CDC.tla; TLC checks NoCrash (outcome is a circuit, a parsing/tokenizing error or an explained "
             "ValueError) and WellFormed on the model, and every enumerated string is given to the real parse_cdc: any other "
             "exception class, an accepted circuit that cannot be simulated-or-refused, or whose serialisation is rejected, is a "
             "violation; model/code disagreement inside the allowed outcomes is reported as drift. Deeply nested inputs are added "
             "by the harness.",
        design_ref="§4 C04",
        note="Bounded: N<=5 atoms per alphabet (exhaustive); the model's recursion is unbounded, the implementation's depth limit is probed separately; NotImplementedError from the general transmission line model counts as a deliberate refusal.",
        technique="TLA+ spec (CDC.tla, CDCTotal.tla) + TLC exhaustive enumeration of atom sequences; spec->code replay of every input with outcome-class comparison",
    ),
    "C16": dict(
        text="specs/Circuit.tla grows every circuit up to the bounds (plain and labelled leaves, duplicate labels, container elements "
             "with default, multi-element, parallel and nested container sub-circuits) and computes the traversal order of "
             "_get_elements_recursive (queue semantics, sub-circuits appended at the end) with the running and per-type identifier maps; "
             "TLC checks bijection onto 0..N-1 / 1..k, name uniqueness up to duplicate labels and that every element is reached once. "
             "Every complete circuit is built for real and generate_element_identifiers(True/False), get_element_name, the free symbols "
             "of to_sympy(), generate_fit_identifiers, FitResult.parameters / to_parameters_dataframe (values matched to elements) and "
             "the CircuiTikZ labels are compared with the model element by element (elements matched by path = identity).",
        design_ref="§4 C16",
        note="Bounded: <=4 leaves, depth <=3, ten leaf kinds; plotting module traversals are not covered.",
        technique="TLA+ spec (Circuit.tla over CDC.tla nodes) + TLC BFS over builder states; spec->code replay of every circuit with per-element comparison",
    ),
    "C17": dict(
        text="specs/FanOut.tla models the shape shared by every fan-out point (submit, W workers, ordered or completion-order "
             "collection, stable sort by a key, pick the head; Z-HIT = two chained stages so the submission order is arbitrary too) and "
             "TLC checks that the winner is independent of submission and completion order for the collection mode and sort key each "
             "fan-out point uses (and finds the counterexample for completion-order collection with a non-total key). Every "
             "(submission order, completion order) pair of the model is replayed on the real perform_zhit through a pool substitute "
             "that delivers results in exactly that order, on tie-prone and generic spectra, and must equal the serial result; real "
             "multiprocessing runs (num_procs 1..16, delayed workers, re-seeded global RNG, repeats) of fit_circuit, perform_zhit, "
             "evaluate_log_F_ext and the CNLS test must reproduce the serial result; mock data is bit-identical per seed.",
        design_ref="§4 C17",
        note="T = 4 task blocks in the model, expanded to the real candidate lists; no pool timeout fires; BHT (unseeded global RNG by design) is excluded.",
        technique="TLA+ spec (FanOut.tla) + TLC exhaustive over keys x orders x interleavings; spec->code replay of every schedule through a controlled pool; differential serial-vs-parallel runs",
    ),
    "C18": dict(
        text="specs/Progress.tla is the Progress counter machine (enter/increment/set/set_message/exit, the module-global 'recent' "
             "marker shared by nested objects, per-object notification step) plus the step accounting of perform_zhit and fit_circuit; "
             "specs/ProgressMC.tla model-checks it (fractions within 0..1, counter within total, no option combination overruns its "
             "announced total) and enumerates the option cross product of the KK, Z-HIT, DRT and fit entry points. Every enumerated "
             "configuration (sampled in the quick tier) is run for real on spectra of several sizes with every Progress call and "
             "callback notification recorded; specs/TraceProgress.tla validates all recorded traces against the counter machine in "
             "one TLC run and accepts only outcomes the property allows (returned, refused up front, library error). "
             "specs/ProgressApi.tla models the whole public API of pyimpspec.progress (callback table with register / unregister, "
             "one or two nested Progress objects); every behaviour up to the bound is replayed through the real module and the "
             "notifications each registered callback received are compared with the model after every call.",
        design_ref="§4 C18",
        note="Configurations x sizes are finite samples of the input space (one mock spectrum family); size floors per entry point are frozen; KK/DRT step accounting is validated against the counter machine only, not re-derived.",
        technique="TLA+ spec (Progress.tla, ProgressMC.tla, ProgressApi.tla) + TLC; spec->code drive of every option combination, code->spec batched trace validation (TraceProgress.tla), spec->code replay of every behaviour of the progress API",
    ),
    "C19": dict(
        text="specs/Cli.tla models the `parse` command as the DataSet actions it performs (low/high-pass filter, excluded indices, refusal "
             "when nothing is left) and the mock-data specifier split rule (last colon after the last closing bracket), checks them on "
             "the model, and enumerates the configurations of parse, specifiers, circuit --simulate, fit and drt. Every configuration is "
             "run in-process through pyimpspec.cli.main(); the printed/written tables (csv, json, md) are parsed back and compared with "
             "the model's visible point ids (parse) or with the API call the configuration denotes (generate_mock_data, "
             "simulate_spectrum, fit_circuit, calculate_drt).",
        design_ref="§4 C19",
        note="fit/drt and simulate are differential comparisons driven by TLC-enumerated configurations (the spec does not predict their numbers); flag subsets as listed in Cli.tla; plots are produced with the Agg backend and ignored.",
        technique="TLA+ spec (Cli.tla) + TLC-enumerated configurations with model-computed expectations for parse/specifiers; spec->code replay through the in-process CLI",
        category="model_checking",
    ),
    "C20": dict(
        text="The circuits of specs/Circuit.tla (incl. degenerate API-only shapes and labels that are not identifiers) are enumerated by "
             "TLC; for every complete, simulatable circuit the real to_sympy(False/True), to_latex, to_circuitikz and to_drawing are "
             "produced and compared with the model: free symbols are exactly the model's one-per-parameter set (subset for containers), "
             "no free variable but f after substitution, one CircuiTikZ component per element of the connection structure in traversal "
             "order named as the circuit names it, balanced begin/end.",
        design_ref="§4 C20",
        note="Coordinates of the layout are not modelled (Layout.tla of the design was not built); degenerate API-only shapes are recorded known findings.",
        technique="TLA+ spec (Circuit.tla) + TLC enumeration; spec->code replay of every circuit through all four exports with model-derived expectations",
    ),
}

NOT_APPLICABLE = {
    "C07": "numeric accuracy of floating-point least-squares/matrix-inversion/CNLS solves; no state or transition for TLC to explore (DESIGN §5)",
    "C09": "metamorphic relation over real-valued scale factors through numeric kernels; TLC has no reals (DESIGN §5)",
    "C10": "statistical calibration over noise seeds; not a state/transition property (DESIGN §5)",
    "C11": "accuracy of quadrature/spline/smoothing numerics (DESIGN §5)",
    "C13": "accuracy of regularised inversion / NNLS / Loewner algebra (DESIGN §5)",
}

PENDING = "check not built yet in this round (planned, see DESIGN §4); not claimed until it exists"


def main():
    props = [json.loads(l)["id"] for l in open(os.path.join(V, "properties.jsonl"))]
    checks = []
    for pid in props:
        if pid not in CHECKS:
            continue
        c = CHECKS[pid]
        checks.append({
            "property_id": pid,
            "quick_cmd": f"./check {pid} --tier quick",
            "thorough_cmd": f"./check {pid} --tier thorough",
            "evidence_file": f"evidence/{pid}.json",
            "replay_cmd_template": f"./check {pid} --replay {{path}}",
            "engine": "tlc",
            "level_claimed": {"category": c.get("category", "model_checking"), "text": c["text"], "design_ref": c["design_ref"]},
            "level_note": c["note"],
            "technique": c["technique"],
        })
    na = []
    for pid in props:
        if pid in CHECKS:
            continue
        na.append({"property_id": pid, "reason": NOT_APPLICABLE.get(pid, PENDING)})
    try:
        hooks = subprocess.run(["git", "-C", "/repo", "log", "--format=%h", "--grep=^hook:"], capture_output=True, text=True).stdout.split()
    except Exception:
        hooks = []
    m = {
        "version": 1,
        "setup_cmd": "sh tools/setup.sh",
        "hooks": {
            "guard": "PYIMPSPEC_VERIF",
            "enable": "PYIMPSPEC_VERIF=1 in the environment of ./check (no build step: /repo/src is put first on PYTHONPATH)",
            "baseline_off_cmd": "sh tools/baseline.sh",
            "source_commits": hooks,
            "add_only": True,
        },
        "engines": [{"name": "tlc", "path": "/opt/veriftools/tla/tla2tools.jar", "serves_properties": [c["property_id"] for c in checks],
                     "kind_free_text": "TLC 1.8 explicit-state model checker over /verif/specs/*.tla; Python harness (/verif/harness) replays TLC behaviours into /repo and validates recorded traces with TLC"}],
        "checks": checks,
        "not_applicable": na,
        "notes": "All checks: ./check <ID> --tier quick|thorough [--seed N]; exit 0 held, 1 VIOLATION, 2 machinery failure. known_findings.json lists recorded and fixed defects.",
    }
    with open(os.path.join(V, "MANIFEST.json"), "w") as fh:
        json.dump(m, fh, indent=1)
    print("MANIFEST.json:", len(checks), "checks;", len(na), "not claimed")


if __name__ == "__main__":
    main()
