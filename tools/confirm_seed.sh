#!/bin/sh
# tools/confirm_seed.sh <seed dir> <worktree> <test files...>: confirm demo passes clean, fails with patch; tests unchanged.
D=$(realpath "$1"); WT=$2; shift 2
cd "$WT" || exit 2
git checkout -q -- . 
run() { PYTHONPATH=$WT/src /venv/bin/python "$@"; }
run "$D/demo.py" >/dev/null 2>&1; A=$?
run -m pytest -q -p no:cacheprovider "$@" 2>&1 | grep -E "^(FAILED|ERROR)" | sort > /tmp/before.$$
git apply "$D/patch.diff" || exit 2
run "$D/demo.py" >/dev/null 2>&1; B=$?
run -m pytest -q -p no:cacheprovider "$@" 2>&1 | grep -E "^(FAILED|ERROR)" | sort > /tmp/after.$$
git checkout -q -- .
if cmp -s /tmp/before.$$ /tmp/after.$$; then T=same; else T=DIFFERENT; fi
echo "demo clean rc=$A, demo patched rc=$B, failing tests $T ($(wc -l < /tmp/after.$$) failing)"
rm -f /tmp/before.$$ /tmp/after.$$
[ $A -eq 0 ] && [ $B -ne 0 ] && [ $T = same ]
