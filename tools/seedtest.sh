#!/bin/sh
# tools/seedtest.sh <patch.diff> <ID> [tier]   apply a seeded change to /repo, run the check, undo.
# exit 0 iff the check reported a VIOLATION (i.e. the seeded change was detected).
P=$(realpath "$1"); ID=$2; TIER=${3:-quick}
if ! git -C /repo diff --quiet; then echo "/repo has uncommitted changes" >&2; exit 2; fi
git -C /repo apply "$P" || exit 2
OUT=$(/verif/check "$ID" --tier "$TIER" 2>&1); RC=$?
git -C /repo checkout -- .
echo "$OUT" | grep -E "VIOLATION|KNOWN-FINDING|MACHINERY|tier=" | head -20
echo "rc=$RC"
[ $RC -eq 1 ] && echo "$OUT" | grep -q "^VIOLATION property=$ID"
