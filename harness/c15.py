"""C15 — the element registry and class defaults can always be restored (specs/Registry.tla)."""
from __future__ import annotations

import copy as _copy

from . import tlaval
from .common import Verdict, ensure_repo_on_path, replay_dump
from .tlc import run_tlc, cleanup, MachineryError, require_coverage

BUILTINS = ["L", "La", "Ls", "R", "K"]
PARAM = {"L": "L", "La": "L", "Ls": "Y", "R": "R", "K": "R"}   # the parameter whose default the model tracks
ACTIONS = ["Register", "Remove", "Reset", "SetDefault", "ResetDefaults"]


def cfg_text(max_hist, record, cand=("X", "Xa", "L", "x"), clears=True, enabled=ACTIONS,
             invariants=("TypeOK", "BuiltinsPreserved", "NoDuplicateSymbols", "InconsistentRefused", "PrivateAreRegistered",
                         "BuiltinPrivacyKept", "OnlyValidSymbols")):
    q = lambda xs: "{" + ", ".join(f'"{x}"' for x in xs) + "}"  # noqa: E731
    inv = "" if record else "".join(f"INVARIANT {i}\n" for i in invariants)
    return (f"SPECIFICATION Spec\nCONSTANTS\n    Builtins = {q(BUILTINS)}\n    PrivateBuiltins = {{\"K\"}}\n"
            f"    UserClasses = {{\"U1\", \"U2\", \"U3\"}}\n    Inconsistent = {{\"U3\"}}\n    CandSymbols = {q(cand)}\n"
            f"    ResetClearsPrivate = {'TRUE' if clears else 'FALSE'}\n    MaxHist = {max_hist}\n"
            f"    Record = {'TRUE' if record else 'FALSE'}\n    Enabled = {q(enabled)}\n{inv}")


# ---------------------------------------------------------------------------

_BASE = None


def _rank_value(cls_default: float, rank: int) -> float:
    return cls_default if rank == 0 else cls_default * (1 + rank)


class World:
    def __init__(self):
        import pyimpspec  # noqa: F401
        from pyimpspec.circuit import registry
        from pyimpspec.circuit.base import Element
        self.registry = registry
        global _BASE
        registry.reset()
        if _BASE is None:
            _BASE = self.snapshot_public()
            _BASE["orig"] = {b: registry.get_elements(private=True)[b].get_default_values()[PARAM[b]] for b in BUILTINS}
        self.builtin = {b: registry.get_elements(private=True)[b] for b in BUILTINS}
        self.orig = _BASE["orig"]

        def mk(name, factor):
            def _impedance(self, f, R):
                from numpy import full
                return full(len(f), factor * R, dtype=complex)
            return type(name, (Element,), {"_impedance": _impedance})
        self.user = {"U1": mk("U1", 1.0), "U2": mk("U2", 1.0), "U3": mk("U3", 2.0)}
        self.ids = {v: k for k, v in self.builtin.items()}
        self.ids.update({v: k for k, v in self.user.items()})

    def snapshot_public(self):
        r = self.registry
        out = {}
        for d in (False, True):
            for p in (False, True):
                out[(d, p)] = {k: v for k, v in r.get_elements(default_only=d, private=p).items()}
        out["defaults"] = {k: v.get_default_values() for k, v in r.get_elements(private=True).items()}
        return out

    def cls(self, cid):
        return self.builtin.get(cid) or self.user[cid]

    def apply(self, rec):
        r = self.registry
        a = rec["a"]
        try:
            if a == "Register":
                c = self.user[rec["c"]]
                d = r.ElementDefinition(Class=c, symbol=rec["s"], name=f"user {rec['c']}", description="user-defined element",
                                        equation="R", parameters=[r.ParameterDefinition(
                                            symbol="R", unit="ohm", description="", value=2.0, lower_limit=0.0,
                                            upper_limit=float("inf"), fixed=False)])
                if rec["priv"]:
                    r.register_element(d, private=True)
                else:
                    r.register_element(d)
            elif a == "Remove":
                cs = [self.cls(c) for c in rec["cs"]]
                r.remove_elements(cs[0] if len(cs) == 1 else cs)
            elif a == "Reset":
                r.reset(elements=rec["els"], default_parameters=rec["params"])
            elif a == "SetDefault":
                c = self.cls(rec["c"])
                key = PARAM.get(rec["c"], "R")
                base = self.orig.get(rec["c"], 2.0)
                c.set_default_values(key, _rank_value(base, rec["v"]))
            elif a == "ResetDefaults":
                cs = sorted(rec["cs"])
                if not cs:
                    r.reset_default_parameter_values()
                elif len(cs) == 1:
                    r.reset_default_parameter_values(self.cls(cs[0]))
                else:
                    r.reset_default_parameter_values([self.cls(c) for c in cs])
            else:
                raise MachineryError(f"unknown action {a}")
        except MachineryError:
            raise
        except Exception as e:  # noqa: BLE001
            return e
        return None

    def unrecognised(self):
        """Registered user symbols that parse_cdc does not resolve to exactly their class."""
        from pyimpspec import parse_cdc
        out = []
        for s, c in self.registry.get_elements(default_only=False, private=True).items():
            if self.ids.get(c) not in self.user:
                continue
            try:
                els = parse_cdc(s).get_elements()
                if len(els) != 1 or type(els[0]) is not c:
                    out.append(f"{s!r} -> {[type(e).__name__ for e in els]}")
            except Exception as e:  # noqa: BLE001
                out.append(f"{s!r} -> {type(e).__name__}")
        return out

    def view(self, probes):
        from pyimpspec import parse_cdc
        from pyimpspec.exceptions import ParsingError
        r = self.registry
        out = {}
        for name, d, p in (("ff", False, False), ("ft", False, True), ("tf", True, False), ("tt", True, True)):
            out[name] = frozenset((s, self.ids.get(c, f"?{c.__name__}")) for s, c in
                                  r.get_elements(default_only=d, private=p).items() if s in probes or self.ids.get(c) in self.user)
        parse = {}
        for s in probes:
            try:
                els = parse_cdc(s).get_elements()
                parse[s] = self.ids.get(type(els[0]), "?") if len(els) == 1 else f"?{len(els)} elements"
            except ParsingError:
                parse[s] = ""
            except Exception as e:  # noqa: BLE001
                parse[s] = f"!{type(e).__name__}"
        out["parse"] = parse
        dflt = {}
        for cid in list(self.builtin) + list(self.user):
            c = self.cls(cid)
            dv = c.get_default_values()
            key = PARAM.get(cid, "R")
            if key not in dv:
                dflt[cid] = 0          # a user class that was never initialised
                continue
            base = self.orig.get(cid, 2.0)
            rank = next((k for k in range(0, 4) if _rank_value(base, k) == dv[key]), ("offgrid", dv[key]))
            dflt[cid] = rank
            if cid in self.builtin or rank != ("offgrid",):
                try:
                    inst = c()
                    if inst.get_values()[key] != dv[key]:
                        dflt[cid] = ("instance-differs", inst.get_values()[key], dv[key])
                except Exception as e:  # noqa: BLE001
                    dflt[cid] = (f"!{type(e).__name__}",)
        out["dflt"] = dflt
        return out

    def pristine(self):
        """After reset(): does the public API look exactly like the freshly imported library?"""
        self.registry.reset()
        now = self.snapshot_public()
        return all(now[k] == _BASE[k] for k in now)

    def hard_restore(self):
        r = self.registry
        try:
            r._ELEMENTS.clear()
            r._ELEMENTS.update(_BASE[(False, True)])
            for k in list(r._PRIVATE_ELEMENTS):
                if k not in _BASE[(True, True)] or k in _BASE[(True, False)]:
                    r._PRIVATE_ELEMENTS.pop(k)
        except AttributeError as e:
            raise MachineryError(f"cannot restore the registry between behaviours: {e}") from e


def _norm_view(p):
    out = {k: frozenset(tuple(x) for x in p[k]) for k in ("ff", "ft", "tf", "tt")}
    out["parse"] = dict(p["parse"])
    out["dflt"] = dict(p["dflt"])
    return out


def judge_history(hist, ctx):
    w = World()
    res = []
    try:
        for k, rec in enumerate(hist):
            exc = w.apply(rec)
            a, want = rec["a"], rec["r"]
            model = _norm_view(rec["p"])
            probes = set(model["parse"].keys())
            got = w.view(probes)
            q = ""
            if a == "Register":
                q = ":" + ("invalid-symbol" if want == "ValueError" and rec["c"] != "U3" else
                           "inconsistent" if rec["c"] == "U3" else "duplicate" if want == "KeyError" else "ok")
            if want == "" and exc is not None:
                res.append(("violation", f"{a}{q}:raises:{type(exc).__name__}", k, f"model: succeeds; implementation raised {type(exc).__name__}: {exc}", {}))
                break
            bad = [f for f in ("ff", "ft", "tf", "tt", "parse", "dflt") if got[f] != model[f]]
            if want != "" and exc is None:
                # a refusal the property demands (inconsistent impedance, shadowing a built-in) must happen
                kind = "violation" if (a == "Register" and (rec["c"] == "U3" or rec["s"] in BUILTINS)) or a == "Remove" else "drift"
                lost = w.unrecognised() if kind == "drift" else []
                if lost:
                    # the symbol syntax is not itself demanded by C15, but "the parser recognises exactly the currently
                    # registered symbols" is: an accepted symbol that parse_cdc does not resolve to its class breaks it
                    res.append(("violation", f"{a}{q}:accepted-but-not-recognised", k,
                                f"model: refused with {want}; implementation accepted, and the parser does not recognise the registered symbol(s) {lost}", {}))
                    break
                res.append((kind, f"{a}{q}:accepted", k, f"model: refused with {want}; implementation accepted; views differing: {bad}", {}))
                break
            if bad:
                f = bad[0]
                res.append(("violation", f"{a}{q}:view:{f}", k, f"{f}: model {model[f]} != implementation {got[f]}", {}))
                break
            if want != "" and type(exc).__name__ != want:
                res.append(("drift", f"{a}{q}:{type(exc).__name__}-for-{want}", k, f"model {want}; implementation {type(exc).__name__}: {exc}", {}))
                break
        if not res and not w.pristine():
            res.append(("violation", "reset:not-pristine", len(hist) - 1,
                        "after reset() the public views differ from the freshly imported library", {}))
    finally:
        w.registry.reset()
        w.hard_restore()
    return res


def selftest() -> int:
    ensure_repo_on_path()
    res = run_tlc("Registry", cfg_text(4, False, clears=False, invariants=("PrivateAreRegistered",)))
    ok1 = res.violated == "PrivateAreRegistered"
    res = run_tlc("Registry", cfg_text(1, True), dump=True)
    hs = [st["hist"] for st in tlaval.iter_dump_states(res.dump_path) if len(st["hist"]) == 1]
    cleanup(res)
    good = next(h for h in hs if h[0]["a"] == "Register" and h[0]["r"] == "" and h[0]["priv"])
    bad = _copy.deepcopy(good)
    bad[0]["p"]["ff"] = bad[0]["p"]["ft"]
    ok2 = not judge_history(good, None) and bool(judge_history(bad, None))
    print("selftest C15:", "ok" if ok1 and ok2 else f"FAILED model-counterexample={ok1} binding={ok2}")
    return 0 if ok1 and ok2 else 2


def replay(case) -> int:
    ensure_repo_on_path()
    hist = tlaval.from_jsonable(case["case"]["hist"])
    res = judge_history(hist, None)
    if not res:
        print("replay C15: the behaviour conforms to the model on this tree")
        return 0
    kind, sig, step, detail, _ = res[0]
    print(f"replay C15: {kind} at step {step} [{sig}]: {detail}")
    return 1 if kind == "violation" else 0


def run(tier: str, seed: int) -> int:
    ensure_repo_on_path()
    v = Verdict("C15", tier, seed)
    res = run_tlc("Registry", cfg_text(5 if tier == "quick" else 7, False), coverage=True, timeout=3600)
    v.add_tlc("invariants", res)
    if res.violated:
        v.model_violation("Registry", res, "the registry model violates its own invariant")
    require_coverage(res, ACTIONS)
    if tier == "quick":
        plans = [(2, ("X", "Xa", "L", "x")), (3, ("X", "L")), (2, ("XA", "X1", "X_a", "XaB", "1X", "X-a"))]
    else:
        plans = [(3, ("X", "Xa", "L", "x")), (4, ("X", "L")), (3, ("XA", "X1", "X_a", "XaB")), (2, ("1X", "_X", "X-a", "X a", "X1", "L"))]
    for h, cand in plans:
        res = run_tlc("Registry", cfg_text(h, True, cand=cand), dump=True, timeout=3600)
        try:
            v.add_tlc(f"histories MaxHist={h} symbols={'/'.join(cand)}", res)
            replay_dump(v, "Registry", res.dump_path, h, judge_history, None)
        finally:
            cleanup(res)
    v.nontrivial = v.replayed
    v.extra["rule"] = ("every behaviour of specs/Registry.tla with exactly MaxHist calls, replayed with freshly created Element "
                       "subclasses; after every call the four get_elements views, parse_cdc on every probe symbol and every class's "
                       "default value (class level and on a fresh instance) are compared with the model; after the behaviour reset() "
                       "must give back the views of the freshly imported library")
    v.assumptions += ["built-ins abstracted to L, La, Ls, R, K; one tracked parameter per class; user classes have one parameter R"]
    return v.finish()
