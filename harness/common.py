"""Shared machinery: verdict bookkeeping, known findings, evidence files, parallel replay."""
from __future__ import annotations

import hashlib
import json
import multiprocessing as mp
import os
import sys
import time

from .tlc import VERIF, MachineryError  # noqa: F401

EVIDENCE = os.path.join(VERIF, "evidence")
REPLAY = os.path.join(EVIDENCE, "replay")
FINDINGS_FILE = os.path.join(VERIF, "known_findings.json")


def load_findings(prop: str) -> list:
    with open(FINDINGS_FILE) as fh:
        data = json.load(fh)
    return [f for f in data["known"] if f["property"] == prop]


class Verdict:
    """Collects what one check run saw.

    report(signature, case, detail): a violation of the property's observable clause.
      signature: a short canonical string naming *what* fails (input class / call site / history
      pattern); compared with known_findings.json entries (exact match on `signature`).
    drift(...): model and code disagree but the property's clause still holds (never an alarm).
    """

    def __init__(self, prop: str, tier: str, seed: int):
        self.prop = prop
        self.tier = tier
        self.seed = seed
        self.t0 = time.time()
        self.known = {f["signature"]: f for f in load_findings(prop)}
        self.known_hit: dict[str, int] = {}
        self.known_example: dict[str, object] = {}
        self.violations: list[dict] = []
        self.drifts: list[dict] = []
        self.n_drift = 0
        self.states = 0
        self.transitions = 0
        self.replayed = 0
        self.evaluations = 0
        self.nontrivial = 0
        self.samples: list = []
        self.extra: dict = {}
        self.assumptions: list[str] = []
        self.exhaustive = True
        self.tlc_runs: list[dict] = []

    # -- TLC bookkeeping -------------------------------------------------
    def add_tlc(self, name: str, res, exhaustive: bool = True):
        self.states += res.distinct
        self.transitions += res.generated
        self.tlc_runs.append({"run": name, "distinct": res.distinct, "generated": res.generated,
                              "depth": res.depth, "wall_s": round(res.wall_s, 2),
                              "complete": res.complete,
                              "actions": {k: v[1] for k, v in sorted(res.coverage.items())}})
        if not (exhaustive and res.complete):
            self.exhaustive = False

    def model_violation(self, name: str, res, what: str):
        """TLC found a counterexample in the model (design-level)."""
        trace = [{"state": h, "vars": b} for h, b in res.error_trace]
        self.report(f"model:{name}:{res.violated}", {"tlc_counterexample": trace}, what)

    # -- verdicts ----------------------------------------------------------
    def report(self, signature: str, case, detail: str):
        if signature in self.known:
            self.known_hit[signature] = self.known_hit.get(signature, 0) + 1
            self.known_example.setdefault(signature, case)
            return
        if len(self.violations) < 200:
            self.violations.append({"signature": signature, "case": case, "detail": detail})
        else:
            self.violations.append({"signature": signature})

    def drift(self, signature: str, case, detail: str):
        self.n_drift += 1
        if len(self.drifts) < 20:
            self.drifts.append({"signature": signature, "case": case, "detail": detail})

    def sample(self, case, limit: int = 6):
        if len(self.samples) < limit:
            self.samples.append(case)

    # -- finish --------------------------------------------------------------
    def finish(self, level: str = "model_checking") -> int:
        os.makedirs(REPLAY, exist_ok=True)
        wall = time.time() - self.t0
        for sig, n in sorted(self.known_hit.items()):
            f = self.known[sig]
            print(f"KNOWN-FINDING: property={self.prop} {f['what']} [{sig}] ({n} cases)")
        for d in self.drifts[:5]:
            print(f"DRIFT property={self.prop} {d['signature']}: {d['detail']}")
        if self.n_drift > 5:
            print(f"DRIFT property={self.prop} ... {self.n_drift} in total")
        seen = set()
        for v in self.violations:
            if "case" not in v or v["signature"] in seen:
                continue
            seen.add(v["signature"])
            h = hashlib.sha1(json.dumps(v, sort_keys=True, default=str).encode()).hexdigest()[:10]
            path = os.path.join(REPLAY, f"{self.prop}-{h}.json")
            with open(path, "w") as fh:
                json.dump({"property": self.prop, **v}, fh, indent=1, default=str)
            print(f"VIOLATION property={self.prop} replay={path}")
            print(f"  signature: {v['signature']}")
            print(f"  detail: {v['detail']}")
        cov = {
            "states": max(self.states, 0),
            "transitions": max(self.transitions, 0),
            "traces_validated_against_impl": self.replayed,
            "samples": self.samples or ["(none)"],
            "evaluations": max(self.evaluations, self.replayed),
            "distinct_nontrivial": self.nontrivial,
            "exhaustive": bool(self.exhaustive),
            "tlc_runs": self.tlc_runs,
            "drift": self.n_drift,
            "drift_examples": self.drifts[:5],
            "known_findings_hit": self.known_hit,
        }
        cov.update(self.extra)
        ev = {
            "property_id": self.prop,
            "tier": self.tier,
            "seed": self.seed,
            "level": level,
            "coverage": cov,
            "assumptions": self.assumptions,
            "wall_s": round(wall, 2),
            "violations": len(self.violations),
        }
        os.makedirs(EVIDENCE, exist_ok=True)
        with open(os.path.join(EVIDENCE, f"{self.prop}.json"), "w") as fh:
            json.dump(ev, fh, indent=1, default=str)
        n_sig = len({v["signature"] for v in self.violations})
        print(f"{self.prop} tier={self.tier} seed={self.seed}: states={self.states} transitions={self.transitions} "
              f"replayed={self.replayed} violations={len(self.violations)} ({n_sig} signatures) "
              f"known={sum(self.known_hit.values())} drift={self.n_drift} wall={wall:.1f}s")
        return 1 if self.violations else 0


# -- parallel replay ---------------------------------------------------------

def _run_chunk(args):
    fn, chunk = args
    return fn(chunk)


def parallel_map(fn, items: list, procs: int = 16, chunk: int = 500):
    """Apply fn(list_of_items) -> list_of_results over chunks in worker processes (fork)."""
    if not items:
        return []
    chunks = [items[i:i + chunk] for i in range(0, len(items), chunk)]
    if procs <= 1 or len(chunks) == 1:
        out = []
        for c in chunks:
            out.extend(fn(c))
        return out
    ctx = mp.get_context("fork")
    with ctx.Pool(min(procs, len(chunks))) as pool:
        out = []
        for r in pool.imap(_run_chunk, [(fn, c) for c in chunks]):
            out.extend(r)
        return out


def repo_src() -> str:
    return os.environ.get("VERIF_REPO", "/repo") + "/src"


def ensure_repo_on_path():
    """Checks import pyimpspec from /repo's working tree (not from any installed copy)."""
    p = repo_src()
    if p not in sys.path:
        sys.path.insert(0, p)
    os.environ.setdefault("PYIMPSPEC_VERIF", "1")
    os.environ.setdefault("MPLBACKEND", "Agg")


# -- history replay from a TLC dump ---------------------------------------------

def _replay_range(arg):
    from . import tlaval
    judge, path, start, end, max_hist, ctx = arg
    ensure_repo_on_path()
    n = 0
    out = []
    sample = []
    for st in tlaval.iter_dump_range(path, start, end):
        hist = st["hist"]
        if len(hist) != max_hist:
            continue
        n += 1
        if len(sample) < 2:
            sample.append(tlaval.to_jsonable([{k: x for k, x in r.items() if k != "p"} for r in hist]))
        for res in judge(hist, ctx):
            kind, sig, step, detail, extra = res
            out.append((kind, sig, [tlaval.to_jsonable(r) for r in hist[:step + 1]], detail, extra))
    return n, out, sample


def replay_dump(v: "Verdict", spec: str, path: str, max_hist: int, judge, ctx=None, procs: int = 16, count_mult: int = 1):
    """Replay every history of length max_hist found in a TLC dump.

    judge(hist, ctx) -> iterable of (kind, signature, step, detail, extra) with kind in
    {'violation', 'drift'}; only the first diverging step of a history should be reported.
    """
    import json as _json
    from . import tlaval
    ranges = tlaval.dump_ranges(path, procs * 4)
    mpctx = mp.get_context("fork")
    seen = set()
    with mpctx.Pool(procs) as pool:
        for n, out, sample in pool.imap_unordered(_replay_range, [(judge, path, s, e, max_hist, ctx) for s, e in ranges]):
            v.replayed += n * count_mult
            for s in sample:
                v.sample(s)
            for kind, sig, prefix, detail, extra in out:
                key = (kind, sig, _json.dumps(prefix, sort_keys=True), _json.dumps(extra, sort_keys=True, default=str))
                if key in seen:
                    continue
                seen.add(key)
                case = {"spec": spec, "hist": prefix, "ctx": extra}
                if kind == "violation":
                    v.report(sig, case, detail)
                else:
                    v.drift(sig, case, detail)


# -- per-state replay (pure-function specs: every dumped state is one input) -----------------

def _states_range(arg):
    from . import tlaval
    judge, path, start, end, ctx = arg
    ensure_repo_on_path()
    n = 0
    nontrivial = 0
    out = []
    sample = []
    for st in tlaval.iter_dump_range(path, start, end):
        n += 1
        res, nt, smp = judge(st, ctx)
        # keep the whole state with a violation so that `./check <ID> --replay` can re-run it
        res = [(k, sig, (dict(c, state=tlaval.to_jsonable(st), ctx=ctx) if k == "violation" and isinstance(c, dict) else c), d) for k, sig, c, d in res]
        nontrivial += nt
        if smp is not None and len(sample) < 3:
            sample.append(smp)
        out.extend(res)
    return n, nontrivial, out, sample


def replay_states(v: "Verdict", path: str, judge, ctx=None, procs: int = 16):
    """judge(state, ctx) -> (results, nontrivial(0/1), sample_or_None); results: (kind, signature, case, detail)."""
    from . import tlaval
    ranges = tlaval.dump_ranges(path, procs * 4)
    mpctx = mp.get_context("fork")
    seen = set()
    with mpctx.Pool(procs) as pool:
        for n, nt, out, sample in pool.imap_unordered(_states_range, [(judge, path, s, e, ctx) for s, e in ranges]):
            v.replayed += n
            v.nontrivial += nt
            for s in sample:
                v.sample(s)
            for kind, sig, case, detail in out:
                if kind == "violation":
                    v.report(sig, case, detail)
                else:
                    v.drift(sig, case, detail)


def replay_state(judge, case, prop):
    """Generic --replay for per-state checks: re-run the judge on the recorded state."""
    from . import tlaval
    ensure_repo_on_path()
    c = case.get("case", {})
    if "state" not in c:
        print(f"replay {prop}: the recorded case holds no state; detail was: {case.get('detail')}")
        return 1
    st = tlaval.from_jsonable(c["state"])
    res, _, _ = judge(st, c.get("ctx"))
    if not any(k == "violation" for k, *_ in res):
        print(f"replay {prop}: the recorded case conforms on this tree")
        return 0
    for k, sig, _, detail in res:
        print(f"replay {prop}: {k} [{sig}] {detail}")
    return 1
