"""Coverage extension: the list interface of Connection (specs/Connection.tla). Disagreements are DRIFT."""
from __future__ import annotations

from .common import ensure_repo_on_path, replay_dump
from .tlc import run_tlc, cleanup


def cfg_text(nleaves, max_hist, max_len):
    return f"SPECIFICATION Spec\nCONSTANTS\n    NLeaves = {nleaves}\n    MaxHist = {max_hist}\n    MaxLen = {max_len}\nINVARIANT FlatView\n"


def judge_history(hist, ctx):
    from pyimpspec.circuit.elements import Resistor, Capacitor
    from pyimpspec.circuit.series import Series
    from pyimpspec.circuit.parallel import Parallel
    leaves = {1: Resistor(), 2: Capacitor(), 3: Resistor()}
    inner = Parallel([])
    root = Series([])
    obj = dict(leaves)
    obj[9] = inner
    ident = {id(v): k for k, v in obj.items()}
    for k, rec in enumerate(hist):
        a = rec["a"]
        tgt = root if rec.get("w", "root") == "root" else inner
        exc, out = None, 0
        try:
            if a == "append":
                tgt.append(obj[rec["x"]])
            elif a == "insert":
                tgt.insert(rec["i"], obj[rec["x"]])
            elif a == "remove":
                tgt.remove(obj[rec["x"]])
            elif a == "pop":
                out = ident.get(id(tgt.pop(rec["i"])), -1)
            elif a == "clear":
                tgt.clear()
            elif a == "index":
                out = tgt.index(obj[rec["x"]])
            elif a == "contains":
                out = 1 if root.contains(obj[rec["x"]], top_level=rec["top"]) else 0
        except Exception as e:  # noqa: BLE001
            exc = e
        want = rec["r"]
        got_r = "" if exc is None else type(exc).__name__
        view = {"root": [ident.get(id(x), -1) for x in root], "inner": [ident.get(id(x), -1) for x in inner]}
        model = {"root": list(rec["p"]["root"]), "inner": list(rec["p"]["inner"])}
        if got_r != want or view != model or (want == "" and out != rec["out"]):
            return [("drift", f"connection-list:{a}", k, f"model {want or 'ok'} {model} out={rec['out']}; implementation {got_r or 'ok'} {view} out={out}", {})]
        # derived views
        flat = []
        for x in root:
            flat.extend(list(inner) if x is inner else [x])
        if [id(x) for x in root.get_elements(recursive=True)] != [id(x) for x in flat] or len(root) != len(view["root"]) or root.count() != len(view["root"]):
            return [("drift", "connection-list:views", k, "get_elements(recursive=True) / len / count disagree with the list", {})]
    return []


def run_extension(v, tier):
    ensure_repo_on_path()
    h = 3 if tier == "quick" else 4
    res = run_tlc("Connection", cfg_text(2, h, 3).replace("INVARIANT FlatView\n", "INVARIANT FlatView\n"), dump=True, timeout=3600)
    try:
        v.add_tlc(f"extension: Connection list interface, histories of {h} calls", res)
        if res.violated:
            v.drift("model:Connection", {}, "Connection.tla violates FlatView")
        else:
            before = v.replayed
            replay_dump(v, "Connection", res.dump_path, h, judge_history, None)
            v.extra["connection_list_histories"] = v.replayed - before
    finally:
        cleanup(res)
