"""C08 — every analysis result is internally consistent with the data it came from.

specs/Analysis.tla enumerates the driver configurations (entry point x variant x mask pattern x input
order).  Each is run for real on a tracing DataSet that logs every read (getter, masked argument,
direct access to the private arrays), twice with different values on the masked points; the harness
evaluates the witnesses on the real result (frequencies, residual identity, pseudo chi-squared
identity, model impedance identity, bit-identity between the twins, input untouched) and
specs/TraceAnalysis.tla validates all recorded runs against the life cycle of Analysis.tla.
"""
from __future__ import annotations

import hashlib
import json
import os
import re
import shutil
import sys
import time
import warnings
from concurrent.futures import ProcessPoolExecutor

from . import tlaval
from .common import Verdict, ensure_repo_on_path
from .tlc import run_tlc, cleanup, MachineryError, scratch_dir

N_POINTS = 25


def mask_ids(pattern, n):
    return {"none": [], "first": [0], "last": [n - 1], "middle": [n // 2], "two": [3, n - 4],
            "alternate": list(range(1, n, 4)), "ends": [0, 1, n - 2, n - 1]}[pattern]


def base_spectrum(kind="passive"):
    import numpy as np
    from pyimpspec import generate_mock_data
    full = generate_mock_data("CIRCUIT_1", noise=5e-2, seed=21)[0]
    f, Z = full.get_frequencies(), full.get_impedances()
    idx = sorted(set(int(round(x)) for x in np.linspace(0, len(f) - 1, N_POINTS)))
    f, Z = np.array(f[idx]), np.array(Z[idx])
    if kind == "active":
        # a negative differential resistance at low frequency: the real parts of Z and of Y change sign
        # (the admittance branch of Z-HIT shifts such data by an offset before the reconstruction)
        w = 2 * np.pi * f
        Z = Z - 1.6 * float(np.max(Z.real)) / (1 + 1j * w * 0.05)
    return f, Z


def make_tracing_class():
    from pyimpspec import DataSet

    class TracingDataSet(DataSet):
        _log = None

        def _note(self, getter, masked="false", private=False):
            log = object.__getattribute__(self, "__dict__").get("_log")
            if log is not None:
                log.append({"ev": "read", "getter": getter, "masked": {None: "none", False: "false", True: "true"}.get(masked, str(masked)),
                            "private": bool(private)})

        def __getattribute__(self, name):
            if name in ("_frequencies", "_impedances", "_mask"):
                fr = sys._getframe(1)
                if not fr.f_code.co_filename.endswith(("data_set.py", "c08.py")):
                    self._note(name, "none", private=True)
            return object.__getattribute__(self, name)

        def get_frequencies(self, masked=False):
            self._note("get_frequencies", masked)
            return super().get_frequencies(masked=masked)

        def get_impedances(self, masked=False):
            self._note("get_impedances", masked)
            return super().get_impedances(masked=masked)

        def get_num_points(self, masked=False):
            self._note("get_num_points", masked)
            log, self.__dict__["_log"] = self.__dict__.get("_log"), None
            try:
                return super().get_num_points(masked=masked)
            finally:
                self.__dict__["_log"] = log

        def get_magnitudes(self, masked=False):
            self._note("get_magnitudes", masked)
            log, self.__dict__["_log"] = self.__dict__.get("_log"), None
            try:
                return super().get_magnitudes(masked=masked)
            finally:
                self.__dict__["_log"] = log

        def get_phases(self, masked=False):
            self._note("get_phases", masked)
            log, self.__dict__["_log"] = self.__dict__.get("_log"), None
            try:
                return super().get_phases(masked=masked)
            finally:
                self.__dict__["_log"] = log

        def get_nyquist_data(self, masked=False):
            self._note("get_nyquist_data", masked)
            log, self.__dict__["_log"] = self.__dict__.get("_log"), None
            try:
                return super().get_nyquist_data(masked=masked)
            finally:
                self.__dict__["_log"] = log

        def get_bode_data(self, masked=False):
            self._note("get_bode_data", masked)
            log, self.__dict__["_log"] = self.__dict__.get("_log"), None
            try:
                return super().get_bode_data(masked=masked)
            finally:
                self.__dict__["_log"] = log

    return TracingDataSet


def build_data(cls, pattern, order, garbage, kind="passive"):
    import numpy as np
    f, Z = base_spectrum(kind)      # descending
    n = len(f)
    m = mask_ids(pattern, n)
    Z = Z.copy()
    if garbage:
        for k, i in enumerate(m):
            Z[i] = complex(1e7 * (k + 1), -3e7 * (k + 2)) if garbage == 1 else complex(-1e-9, 1e-9 * (k + 1))
    if order == "asc":
        f, Z = f[::-1], Z[::-1]
        mask = {n - 1 - i: True for i in m}
    else:
        mask = {i: True for i in m}
    return cls(f, Z, mask=mask, label="traced"), m


def ids_of(data, base_f):
    out = []
    for x in data.get_frequencies(masked=None):
        k = [i for i, bf in enumerate(base_f) if bf == x]
        out.append(k[0] if k else -1)
    return out


def call_for(cfg, data):
    """-> (callable returning a list of result objects, input circuit or None)"""
    import numpy as np
    import pyimpspec
    from pyimpspec import parse_cdc
    e, var = cfg["e"]["entry"], cfg["e"]["variant"]
    circuit = None
    if e == "kk":
        if var.endswith(("-Z", "-Y")):
            kw = dict(test=var[:-2], num_RC=8, num_F_ext_evaluations=0, admittance=var.endswith("-Y"), num_procs=1, max_nfev=100)
        else:
            kw = dict(admittance=(True if var == "auto-admittance" else None), num_procs=1)
        fn = lambda: [pyimpspec.perform_kramers_kronig_test(data, **kw)]  # noqa: E731
    elif e == "kk-exploratory":
        fn = lambda: pyimpspec.perform_exploratory_kramers_kronig_tests(data, test=var, num_procs=1)[0]  # noqa: E731
    elif e == "kk-log-F-ext":
        fn = lambda: [r for ev in pyimpspec.analysis.kramers_kronig.evaluate_log_F_ext(data, test=var, num_F_ext_evaluations=10, num_procs=1)  # noqa: E731
                      for r in ev[1]][:12]
    elif e == "zhit":
        kw = {"default": {}, "auto": dict(smoothing="auto", interpolation="auto", window="hann"), "admittance": dict(admittance=True),
              "custom-weights": dict(weights=np.ones(data.get_num_points(), dtype=float))}[var]
        fn = lambda: [pyimpspec.perform_zhit(data, num_procs=1, **kw)]  # noqa: E731
    elif e == "drt":
        if var.startswith("tr-nnls"):
            fn = lambda: [pyimpspec.calculate_drt(data, method="tr-nnls", mode=var[8:], lambda_value=1e-3)]  # noqa: E731
        elif var == "lm":
            fn = lambda: [pyimpspec.calculate_drt(data, method="lm", num_procs=1)]  # noqa: E731
        elif var == "bht":
            fn = lambda: [pyimpspec.calculate_drt(data, method="bht", num_samples=200, num_attempts=2, num_procs=1)]  # noqa: E731
        elif var == "mrq-fit-from-fit":
            with np.errstate(all="ignore"):
                fit = pyimpspec.fit_circuit(parse_cdc("R{R=100}(R{R=200}Q{Y=1e-6,n=0.9})(R{R=400}Q{Y=2e-4,n=0.85})"), data,
                                            method="least_squares", weight="boukamp", max_nfev=100, num_procs=1)
            circuit = fit.circuit         # the input circuit of this variant: it must come back unmodified
            fn = lambda: [pyimpspec.calculate_drt(data, method="mrq-fit", circuit=circuit, fit=fit, num_procs=1, max_nfev=100)]  # noqa: E731
        else:
            circuit = parse_cdc("R(RQ)(RQ)" if var == "mrq-fit-defaults" else "R{R=100}(R{R=200}Q{Y=1e-6,n=0.9})(R{R=400}Q{Y=2e-4,n=0.85})")
            fn = lambda: [pyimpspec.calculate_drt(data, method="mrq-fit", circuit=circuit, num_procs=1, max_nfev=100)]  # noqa: E731
    elif e == "fit":
        circuit = parse_cdc("R(RC)(RQ)" if var == "defaults" else "R{R=100}(R{R=200}C{C=1e-6})(R{R=400}Q{Y=2e-4,n=0.85})")
        if var == "fixed-parameter":
            circuit.get_elements()[0].set_fixed(R=True)
        meth, wgt = {"leastsq-boukamp": ("leastsq", "boukamp"), "nelder-modulus": ("nelder", "modulus"),
                     "two-methods": (["leastsq", "powell"], ["boukamp", "unity"]), "fixed-parameter": ("least_squares", "proportional"), "defaults": ("least_squares", "modulus")}[var]
        fn = lambda: [pyimpspec.fit_circuit(circuit, data, method=meth, weight=wgt, max_nfev=200, num_procs=1)]  # noqa: E731
    else:
        raise MachineryError(e)
    return fn, circuit


def digest_result(r):
    import numpy as np
    h = hashlib.sha1()
    for name in ("frequencies", "impedances", "residuals", "time_constants", "gammas", "real_gammas", "imaginary_gammas"):
        a = getattr(r, name, None)
        if a is not None:
            h.update(np.ascontiguousarray(np.asarray(a)).tobytes())
    h.update(repr(float(r.pseudo_chisqr)).encode())
    c = getattr(r, "circuit", None)
    if c is not None:
        h.update(c.serialize(17).encode())
    return h.hexdigest()


def witnesses(r, data_f, data_Z):
    import numpy as np
    f = np.asarray(r.frequencies)
    Zm = np.asarray(r.impedances)
    res = np.asarray(r.residuals)
    same_f = len(f) == len(data_f) and bool(np.all(f == data_f))
    if not same_f or len(Zm) != len(data_Z) or len(res) != len(data_Z):
        return same_f, False, False, "na"
    want = (data_Z - Zm) / np.abs(data_Z)
    res_ok = bool(np.allclose(res, want, rtol=1e-9, atol=1e-12))
    chi = float(np.sum(np.abs(res) ** 2))
    chi_ok = bool(np.isclose(float(r.pseudo_chisqr), chi, rtol=1e-8, atol=1e-300))
    model_ok = "na"
    c = getattr(r, "circuit", None)
    if c is not None:
        try:
            with np.errstate(all="ignore"):
                model_ok = "yes" if np.allclose(c.get_impedances(f), Zm, rtol=1e-9, atol=1e-12) else "no"
        except Exception:  # noqa: BLE001
            model_ok = "no"
    return same_f, res_ok, chi_ok, model_ok


def run_config(cfg):
    ensure_repo_on_path()
    import numpy as np
    warnings.simplefilter("ignore")
    cls = make_tracing_class()
    base_f, _ = base_spectrum()
    runs = []
    for garbage in (0, 1, 2):
        data, m = build_data(cls, cfg["mask"], cfg["order"], garbage, cfg.get("spectrum", "passive"))
        fn, circuit = call_for(cfg, data)
        before = data.to_dict()
        circ_before = circuit.serialize(17) if circuit is not None else None
        log = []
        data.__dict__["_log"] = log
        err = None
        try:
            np.random.seed(20240607)      # BHT draws start values from the global generator: same draws for every twin
            with np.errstate(all="ignore"):
                results = list(fn())
        except Exception as e:  # noqa: BLE001
            err, results = e, []
        data.__dict__["_log"] = None
        after = data.to_dict()
        runs.append({"data": data, "m": m, "log": log, "results": results, "err": err,
                     "untouched": json.dumps(before, sort_keys=True, default=str) == json.dumps(after, sort_keys=True, default=str),
                     "circuit_same": circuit is None or circuit.serialize(17) == circ_before})
        if cfg["mask"] == "none":
            break
    first = runs[0]
    if first["err"] is not None:
        return {"cfg": cfg, "error": f"{type(first['err']).__name__}: {str(first['err'])[:200]}", "events": []}
    data = first["data"]
    ids = ids_of(data, base_f)
    masked = sorted(ids[i] for i, fl in data.get_mask().items() if fl)
    d_f, d_Z = data.get_frequencies(masked=False), data.get_impedances(masked=False)
    events = [{"ev": "start", "ids": ids, "masked": masked}] + first["log"][:400]
    digs = [[digest_result(r) for r in run["results"]] for run in runs]
    twin_same = all(d == digs[0] for d in digs[1:]) and all(run["err"] is None for run in runs)
    base_ids = {float(bf): i for i, bf in enumerate(base_f)}
    for r in first["results"]:
        same_f, res_ok, chi_ok, model_ok = witnesses(r, np.asarray(d_f), np.asarray(d_Z))
        events.append({"ev": "result", "freqIds": [base_ids.get(float(x), -1) for x in np.asarray(r.frequencies)], "res_ok": res_ok,
                       "chi_ok": chi_ok, "model_ok": model_ok, "same_as_twin": bool(twin_same), "kind": type(r).__name__})
    ids_after = ids_of(data, base_f)
    events.append({"ev": "end", "ids": ids_after if first["untouched"] else [-1], "masked": masked,
                   "circuit_same": all(run["circuit_same"] for run in runs) and all(run["untouched"] for run in runs)})
    return {"cfg": cfg, "error": None, "events": events}


def validate(v: Verdict, runs):
    work = scratch_dir("c08-traces")
    path = os.path.join(work, "traces.json")
    with open(path, "w") as fh:
        json.dump([r["events"] for r in runs], fh)
    res = run_tlc("TraceAnalysis", "TraceAnalysis.cfg", workers=1, env={"TRACE_FILE": path}, timeout=3600)
    v.add_tlc(f"trace validation of {len(runs)} recorded runs", res, exhaustive=False)
    rejected, odd, validated = {}, set(), None
    for ln in res.output.splitlines():
        m = re.match(r'^<<"REJECT", (\d+), (\d+), (\d+)>>', ln)
        if m:
            rejected[int(m.group(1)) - 1] = (int(m.group(2)), int(m.group(3)))
        m = re.match(r'^<<"ODDREAD", (\d+)>>', ln)
        if m:
            odd.add(int(m.group(1)) - 1)
        m = re.match(r'^<<"VALIDATED", (\d+)>>', ln)
        if m:
            validated = int(m.group(1))
    shutil.rmtree(work, ignore_errors=True)
    if validated != len(runs):
        raise MachineryError(f"trace validation did not report on all traces ({validated} of {len(runs)})")
    return rejected, odd


def name_of(cfg):
    return f"{cfg['e']['entry']}[{cfg['e']['variant']}] mask={cfg['mask']} order={cfg['order']} spectrum={cfg.get('spectrum', 'passive')}"


def judge(v: Verdict, runs):
    ok_runs = [r for r in runs if r["error"] is None]
    for r in runs:
        if r["error"] is not None:
            v.drift(f"{r['cfg']['e']['entry']}:{r['cfg']['e']['variant']}:did-not-run", r["cfg"], f"{name_of(r['cfg'])} raised {r['error']}")
    rejected, odd = validate(v, ok_runs)
    for k, r in enumerate(ok_runs):
        v.replayed += 1
        cfg = r["cfg"]
        if k in rejected:
            m, ln = rejected[k]
            ev = r["events"][m]
            if ev["ev"] == "result":
                start = r["events"][0]
                want = [i for i in start["ids"] if i not in start["masked"]]
                why = ("frequencies-not-the-unmasked-frequencies" if ev["freqIds"] != want else
                       "residuals-identity" if not ev["res_ok"] else "pseudo-chisqr-identity" if not ev["chi_ok"] else
                       "model-impedance-identity" if ev["model_ok"] == "no" else "masked-points-influence-the-result")
            elif ev["ev"] == "end":
                why = "input-modified"
            else:
                why = f"unexpected-{ev['ev']}"
            v.report(f"{cfg['e']['entry']}:{why}", {"config": cfg, "event": ev}, f"{name_of(cfg)}: {why} ({ev})")
        elif k in odd:
            bad = sorted({(e["getter"], e["masked"], e["private"]) for e in r["events"] if e["ev"] == "read" and (e["masked"] != "false" or e["private"])})
            v.drift(f"{cfg['e']['entry']}:reads-beyond-the-unmasked-view", cfg, f"{name_of(cfg)} also read {bad}")
        if len(v.samples) < 4:
            v.sample({"config": cfg, "events": r["events"][:3] + ["..."] + r["events"][-2:]})


def selftest() -> int:
    ensure_repo_on_path()
    cfg = {"e": {"entry": "zhit", "variant": "default"}, "mask": "two", "order": "asc"}
    good = run_config(cfg)
    bad = json.loads(json.dumps(good))
    k = next(i for i, e in enumerate(bad["events"]) if e["ev"] == "result")
    bad["events"][k]["freqIds"] = bad["events"][k]["freqIds"][1:]
    bad2 = json.loads(json.dumps(good))
    bad2["events"][k]["same_as_twin"] = False
    v = Verdict("C08", "quick", 0)
    rej, _ = validate(v, [good, bad, bad2])
    ok = good["error"] is None and 0 not in rej and 1 in rej and 2 in rej
    print("selftest C08:", "ok" if ok else f"FAILED {good['error']} {rej}")
    return 0 if ok else 2


def replay(case) -> int:
    ensure_repo_on_path()
    r = run_config(case["case"]["config"])
    print("replay C08:", name_of(case["case"]["config"]), r["error"] or [e for e in r["events"] if e["ev"] in ("result", "end")])
    return 1


def run(tier: str, seed: int) -> int:
    ensure_repo_on_path()
    import random
    v = Verdict("C08", tier, seed)
    res = run_tlc("AnalysisConfigs", "AnalysisConfigs.cfg", dump=True)
    try:
        v.add_tlc("driver configurations", res)
        configs = [tlaval.to_jsonable(st["cfg"]) for st in tlaval.iter_dump_states(res.dump_path)]
    finally:
        cleanup(res)
    configs.sort(key=lambda c: json.dumps(c, sort_keys=True))
    rng = random.Random(seed)
    if tier == "quick":
        # every entry/variant once with a non-trivial mask, plus a sample of the rest
        chosen, seen = [], set()
        for c in rng.sample(configs, len(configs)):
            key = (c["e"]["entry"], c["e"]["variant"], c["spectrum"])
            if key not in seen and c["mask"] != "none":
                seen.add(key)
                chosen.append(c)
        chosen += rng.sample(configs, 170)
        configs = chosen
    with ProcessPoolExecutor(max_workers=14) as ex:
        runs = list(ex.map(run_config, configs, chunksize=1))
    judge(v, runs)
    v.nontrivial = len({json.dumps(r["cfg"], sort_keys=True) for r in runs if r["error"] is None})
    v.evaluations = len(runs)
    v.extra["rule"] = ("configurations = states of specs/Analysis.tla (entry point x variant x mask pattern x input order); each is run three times "
                       "(masked points hold the spectrum's own values / huge values / tiny values of opposite sign) on a tracing DataSet and the "
                       "recorded run is validated by specs/TraceAnalysis.tla")
    v.assumptions += ["one 25-point mock spectrum; numerical identities are evaluated by the harness with rtol 1e-9 / 1e-8"]
    return v.finish()
