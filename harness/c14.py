"""C14 — the element parameter API as a state machine (specs/ElementParams.tla).

TLC enumerates every call history of the model for each limit shape of the registered element
classes; every history is replayed on every registered (class, parameter) of that shape and the
real element is compared with the model after every call.
"""
from __future__ import annotations

import copy as _copy
import math
from decimal import Decimal

from . import tlaval
from .common import Verdict, ensure_repo_on_path, replay_dump
from .tlc import run_tlc, cleanup, MachineryError, require_coverage

NAN, STR, NONE = 100, 200, 201
ALL_ACTIONS = ["SetValues", "SetLower", "SetUpper", "SetFixed", "SetValuesBad", "SetLowerBad", "SetUpperBad",
               "SetFixedBad", "SetLabel", "ResetParameter", "ResetParameters", "Copy", "PrintParse", "Swap"]
LABELS = {"empty": "", "a": "a", "b2": "b2", "padded": " c ", "digits": "12", "nonascii": "é", "nonstr": 5}


def cfg_text(keys, shape, fixed, val_args, lo_args, hi_args, max_hist, max_pairs, record, enabled=None,
             invariants=("TypeOK", "LoLtHi", "LimitsAreNumbers", "CopyNeverRefused", "ResetNeverRefused", "ClampAndRefusal")):
    def S(xs):
        return "{" + ", ".join(str(x) for x in sorted(xs)) + "}"
    en = ", ".join(f'"{a}"' for a in (enabled or ALL_ACTIONS))
    ks = ", ".join(f'"{k}"' for k in keys)
    inv = "" if record else "".join(f"INVARIANT {i}\n" for i in invariants)
    return (f"SPECIFICATION Spec\nCONSTANTS\n    P = {{{ks}}}\n    Shape = \"{shape}\"\n"
            f"    FixedByDefault = {'TRUE' if fixed else 'FALSE'}\n    ValArgs = {S(val_args)}\n    LoArgs = {S(lo_args)}\n"
            f"    HiArgs = {S(hi_args)}\n    LabelArgs = {{\"empty\", \"a\", \"padded\", \"digits\", \"nonascii\", \"nonstr\"}}\n"
            f"    MaxHist = {max_hist}\n    MaxPairs = {max_pairs}\n    Enabled = {{{en}}}\n"
            f"    Record = {'TRUE' if record else 'FALSE'}\n{inv}")


# ---------------------------------------------------------------------------
# rank <-> float per (class, parameter)
# ---------------------------------------------------------------------------

def _shift(x: float, k: int) -> float:
    return float(Decimal(repr(x)).scaleb(k))


def build_grid(dlo: float, dval: float, dhi: float):
    g = [None] * 9
    g[0], g[8], g[4] = -math.inf, math.inf, dval
    if math.isinf(dlo):
        g[1], g[2], g[3] = dval - 3, dval - 2, dval - 1
    else:
        g[3] = dlo
        g[1], g[2] = (_shift(dlo, -6), _shift(dlo, -3)) if dlo > 0 else (dlo - 2.0, dlo - 1.0)
    if math.isinf(dhi):
        g[5], g[6], g[7] = _shift(dval, 1), _shift(dval, 2), _shift(dval, 3)
    else:
        g[5] = dhi
        g[6], g[7] = _shift(dhi, 1), _shift(dhi, 2)
    assert all(g[i] < g[i + 1] for i in range(8)), g
    return g


def shape_of(dlo, dhi):
    if math.isinf(dlo):
        return "II"
    return "FI" if math.isinf(dhi) else "FF"


def registered_roles():
    """[(symbol, key, shape, fixed_by_default)] for every registered class/parameter."""
    from pyimpspec.circuit.registry import get_elements
    out = []
    for sym, cls in sorted(get_elements(private=True).items()):
        lo, hi, fx = cls.get_default_lower_limits(), cls.get_default_upper_limits(), cls.are_fixed_by_default()
        for k in cls.get_default_values():
            out.append((sym, k, shape_of(lo[k], hi[k]), bool(fx[k])))
    return out


class Role:
    """Binds the model's keys (x, y) to real parameter keys of one class."""

    def __init__(self, sym, keymap):
        from pyimpspec.circuit.registry import get_elements
        self.sym = sym
        self.cls = get_elements(private=True)[sym]
        self.keymap = dict(keymap)           # model key -> real key
        self.inv = {v: k for k, v in self.keymap.items()}
        dv, lo, hi = self.cls.get_default_values(), self.cls.get_default_lower_limits(), self.cls.get_default_upper_limits()
        self.grid = {mk: build_grid(lo[rk], dv[rk], hi[rk]) for mk, rk in self.keymap.items()}
        self.defaults = (dict(dv), dict(lo), dict(hi), dict(self.cls.are_fixed_by_default()))

    def rkey(self, mk):
        return self.keymap.get(mk, mk)

    def arg(self, mk, v):
        if v == NAN:
            return math.nan
        if v == STR:
            return "abc"
        if v == NONE:
            return None
        if isinstance(v, str):
            return {"true": True, "false": False, "int": 1}[v]
        g = self.grid.get(mk) or next(iter(self.grid.values()))
        return g[v]

    def rank(self, mk, x):
        if isinstance(x, float) and math.isnan(x):
            return NAN
        g = self.grid[mk]
        for i, gv in enumerate(g):
            if gv == x:
                return i
        return ("offgrid", x)

    def project(self, e):
        if e is None:
            return {"none": True}
        vals, lo, hi, fx = e.get_values(), e.get_lower_limits(), e.get_upper_limits(), e.are_fixed()
        return {
            "val": {mk: self.rank(mk, float(vals[rk])) for mk, rk in self.keymap.items()},
            "lo": {mk: self.rank(mk, float(lo[rk])) for mk, rk in self.keymap.items()},
            "hi": {mk: self.rank(mk, float(hi[rk])) for mk, rk in self.keymap.items()},
            "fx": {mk: fx[rk] for mk, rk in self.keymap.items()},
            "label": e.get_label(),
        }

    def others_untouched(self, e):
        """Parameters the model does not address must stay at the class defaults."""
        dv, lo, hi, fx = self.defaults
        vals, l, h, f = e.get_values(), e.get_lower_limits(), e.get_upper_limits(), e.are_fixed()
        for k in dv:
            if k in self.inv:
                continue
            if (vals[k], l[k], h[k], f[k]) != (dv[k], lo[k], hi[k], fx[k]):
                return f"parameter {k} changed although no call addressed it"
        return None

    def class_defaults_ok(self):
        c = self.cls
        return (c.get_default_values(), c.get_default_lower_limits(), c.get_default_upper_limits(),
                c.are_fixed_by_default()) == self.defaults


def _call_setter(e, name, role, rec):
    meth = {"SetValues": e.set_values, "SetLower": e.set_lower_limits, "SetUpper": e.set_upper_limits,
            "SetFixed": e.set_fixed}[name.replace("Bad", "")]
    form = rec["form"]
    pairs = [(role.rkey(k), role.arg(k, v)) for k, v in rec["pairs"]]
    flat = [x for kv in pairs for x in kv]
    if form == "kw":
        meth(**dict(pairs))
    elif form == "pos":
        meth(*flat)
    elif form == "odd":
        meth(pairs[0][0])
    elif form == "overlap":
        meth(*flat, **dict(pairs))
    elif form == "unknown":
        meth(*flat, "zz", pairs[0][1])
    else:
        raise MachineryError(f"unknown form {form}")


def _limits_sane(e):
    lo, hi = e.get_lower_limits(), e.get_upper_limits()
    return all(lo[k] < hi[k] for k in lo)


def judge_history(hist, ctx):
    """ctx: list of (sym, keymap items). Yields divergences (first per role)."""
    out = []
    for sym, keymap in ctx:
        r = _judge_role(hist, Role(sym, keymap))
        if r is not None:
            out.append(r + ({"class": sym, "keys": dict(keymap)},))
    return out


def _judge_role(hist, role):
    from pyimpspec import parse_cdc
    cur, oth = role.cls(), None
    for k, rec in enumerate(hist):
        a = rec["a"]
        exc = None
        try:
            if a.startswith("Set") and a != "SetLabel":
                _call_setter(cur, a, role, rec)
            elif a == "SetLabel":
                cur.set_label(LABELS[rec["arg"]])
            elif a == "ResetParameter":
                cur.reset_parameter(role.rkey(rec["k"]))
            elif a == "ResetParameters":
                cur.reset_parameters(*[role.rkey(x) for x in sorted(rec["keys"])])
            elif a == "Copy":
                new = _copy.deepcopy(cur) if rec["deep"] else _copy.copy(cur)
                if new is cur or type(new) is not type(cur):
                    return ("violation", "Copy:not-a-new-object", k, "copy returned the same object or another class")
                cur, oth = new, cur
            elif a == "PrintParse":
                text = cur.to_string(12)
                els = parse_cdc(text).get_elements(recursive=False)
                if len(els) != 1 or type(els[0]) is not type(cur):
                    return ("violation", "PrintParse:shape", k, f"parse_cdc({text!r}) did not return one {role.sym}")
                cur, oth = els[0], cur
            elif a == "Swap":
                cur, oth = oth, cur
            else:
                raise MachineryError(f"unknown action {a}")
        except MachineryError:
            raise
        except Exception as e:  # noqa: BLE001
            exc = e
        want = rec["r"]
        got_cur, got_oth = role.project(cur), role.project(oth)
        want_cur, want_oth = rec["p"][0], rec["p"][1]
        same = (got_cur == want_cur and got_oth == want_oth)
        q = ""
        if a in ("SetLower", "SetUpper", "SetValues"):
            vs = [v for _, v in rec["pairs"]]
            q = ":nan" if NAN in vs else ""
        if want == "" and exc is not None:
            return ("violation", f"{a}{q}:raises:{type(exc).__name__}", k,
                    f"model: succeeds; implementation raised {type(exc).__name__}: {exc}")
        if not _limits_sane(cur) or (oth is not None and not _limits_sane(oth)):
            return ("violation", f"{a}{q}:lower-not-below-upper", k,
                    f"after the call a lower limit is not strictly below the upper limit: {cur.get_lower_limits()} {cur.get_upper_limits()}")
        if want != "" and exc is None:
            return ("drift", f"{a}{q}:accepted", k, f"model: refused with {want}; implementation accepted the call")
        if not same:
            fld = next((f for f in ("val", "lo", "hi", "fx", "label") if got_cur.get(f) != want_cur.get(f)), "other-instance")
            kind = "refusal-changed-state" if want != "" else "state"
            return ("violation", f"{a}{q}:{kind}:{fld}", k, f"model {want_cur} / {want_oth} != implementation {got_cur} / {got_oth}")
        if want != "" and type(exc).__name__ != want:
            return ("drift", f"{a}{q}:{type(exc).__name__}-for-{want}", k, f"model: {want}; implementation: {type(exc).__name__}: {exc}")
        msg = role.others_untouched(cur)
        if msg:
            return ("violation", f"{a}:unaddressed-parameter-changed", k, msg)
        if not role.class_defaults_ok():
            return ("violation", f"{a}:class-defaults-changed", k, "the class defaults differ from those at the start")
    return None


# ---------------------------------------------------------------------------

FULL_VAL = [0, 2, 4, 6, 8, NAN, STR, NONE]
FULL_LO = [0, 1, 2, 3, 4, 5, 6, 7, 8, NAN, STR]
FULL_HI = [0, 1, 2, 3, 4, 5, 6, 7, 8, NAN, NONE]
SMALL_VAL = [2, 4, 6]
SMALL_LO = [0, 2, 5, 6, NAN]
SMALL_HI = [2, 3, 7, 8]


def roles_by_shape(tier: str):
    roles = registered_roles()
    by = {}
    for sym, key, shape, fx in roles:
        by.setdefault((shape, fx), []).append((sym, key))
    return by


def apalache_induction(next_op="Next"):
    """Init => IndInv and IndInv /\\ Next => IndInv' for specs/ParamsInd.tla. Returns (ok, seconds)."""
    import os
    import shutil
    import subprocess
    import time
    from .tlc import SPECS, scratch_dir
    work = scratch_dir("apalache")
    t0 = time.time()
    try:
        shutil.copy(os.path.join(SPECS, "ParamsInd.tla"), work)
        ok = True
        for args in (["--init=Init", "--inv=IndInv", "--length=0"], ["--init=IndInit", f"--next={next_op}", "--inv=IndInv", "--length=1"]):
            try:
                p = subprocess.run(["apalache-mc", "check", *args, f"--out-dir={work}/out", "ParamsInd.tla"], cwd=work, capture_output=True,
                                   text=True, timeout=600)
            except (subprocess.TimeoutExpired, FileNotFoundError) as e:
                raise MachineryError(f"apalache-mc did not finish: {e}") from e
            if "EXITCODE: OK" not in p.stdout:
                if "EXITCODE: ERROR (12)" in p.stdout or "violat" in p.stdout.lower():
                    ok = False
                else:
                    raise MachineryError("apalache-mc failed: " + p.stdout[-400:])
        return ok, time.time() - t0
    finally:
        shutil.rmtree(work, ignore_errors=True)


def selftest() -> int:
    ensure_repo_on_path()
    res = run_tlc("ElementParams", cfg_text(["x"], "FF", False, FULL_VAL, FULL_LO, FULL_HI, 3, 1, False,
                                            invariants=("LowerFirstCopyNeverRefused",)))
    ok1 = res.violated == "LowerFirstCopyNeverRefused"
    good = [{"a": "SetUpper", "form": "kw", "pairs": [["x", 7]], "r": "",
             "p": [{"val": {"x": 4}, "lo": {"x": 3}, "hi": {"x": 7}, "fx": {"x": False}, "label": ""}, {"none": True}]}]
    bad = _copy.deepcopy(good)
    bad[0]["p"][0]["hi"]["x"] = 6
    ctx = [("C", (("x", "C"),))]
    ok2 = not judge_history(good, ctx) and bool(judge_history(bad, ctx))
    ok3 = apalache_induction()[0] and not apalache_induction("NextSloppy")[0]
    print("selftest C14:", "ok" if ok1 and ok2 and ok3 else f"FAILED model-counterexample={ok1} binding={ok2} induction={ok3}")
    return 0 if ok1 and ok2 and ok3 else 2


def replay(case) -> int:
    ensure_repo_on_path()
    hist = tlaval.from_jsonable(case["case"]["hist"])
    c = case["case"]["ctx"]
    ctx = [(c["class"], tuple(c["keys"].items()))]
    res = judge_history(hist, ctx)
    if not res:
        print("replay C14: the behaviour conforms to the model on this tree")
        return 0
    kind, sig, step, detail, extra = res[0]
    print(f"replay C14: {kind} at step {step} [{sig}] on {extra}: {detail}")
    return 1 if kind == "violation" else 0


def run(tier: str, seed: int) -> int:
    ensure_repo_on_path()
    v = Verdict("C14", tier, seed)
    by = roles_by_shape(tier)
    # two-key roles: pairs of parameters of one class with the same shape and default fixed flag
    pairs2 = {}
    for (shape, fx), lst in by.items():
        seen = {}
        for sym, key in lst:
            seen.setdefault(sym, []).append(key)
        for sym, keys in seen.items():
            if len(keys) >= 2:
                pairs2.setdefault((shape, fx), []).append((sym, (("x", keys[0]), ("y", keys[1]))))
    # 1. model invariants (no history variable), two keys, full argument sets
    mc_h = 3 if tier == "quick" else 4
    for shape in ("FF", "FI", "II"):
        res = run_tlc("ElementParams", cfg_text(["x", "y"] if tier == "thorough" or shape == "FF" else ["x"], shape, False,
                                                FULL_VAL, FULL_LO, FULL_HI, mc_h if shape == "FF" or tier == "quick" else 3, 1, False),
                      coverage=True, timeout=3600)
        v.add_tlc(f"invariants shape={shape}", res)
        if res.violated:
            v.model_violation("ElementParams", res, "the parameter-store model violates its own invariant")
        require_coverage(res, ["Setter", "SetterBad", "SetLabel", "ResetParameter", "ResetParameters", "Copy", "PrintParse", "Swap"])
    # 1b. unbounded: lower < upper is an inductive invariant of the setters over all integers (Apalache)
    ok, secs = apalache_induction()
    v.extra["apalache_inductive_invariant"] = {"module": "specs/ParamsInd.tla", "invariant": "lower < upper", "obligations": 2, "discharged": 2 if ok else 0,
                                               "wall_s": round(secs, 1)}
    if not ok:
        v.report("model:ParamsInd:IndInv", {"spec": "ParamsInd"}, "lower < upper is not inductive for the setters of specs/ParamsInd.tla")
    # 2. histories replayed on every registered (class, parameter)
    n_roles = 0
    for (shape, fx), lst in sorted(by.items()):
        ctx = [(sym, (("x", key),)) for sym, key in lst]
        n_roles += len(ctx)
        core = ["SetValues", "SetLower", "SetUpper", "SetFixed", "ResetParameters", "Copy", "PrintParse", "Swap"]
        if tier == "quick":
            plans = [(2, FULL_VAL, FULL_LO, FULL_HI, None, None)]
            if not fx:
                plans.append((3, SMALL_VAL, SMALL_LO, SMALL_HI, core, None))
            if len(ctx) > 3:
                ctx = [ctx[(seed + i * len(ctx) // 3) % len(ctx)] for i in range(3)]
        else:
            # every registered role is covered by the length-2 full run; longer histories use a seeded subset of roles
            plans = [(2, FULL_VAL, FULL_LO, FULL_HI, None, None)]
            plans.append((3, FULL_VAL, FULL_LO, FULL_HI, None, 4) if not fx else (3, SMALL_VAL, SMALL_LO, SMALL_HI, None, 4))
            if not fx:
                plans.append((4, SMALL_VAL, SMALL_LO, SMALL_HI, core, 2))
        all_roles = ctx
        for h, va, la, ha, en, nroles in plans:
            ctx = all_roles if nroles is None or len(all_roles) <= nroles else \
                [all_roles[(seed + i * len(all_roles) // nroles) % len(all_roles)] for i in range(nroles)]
            res = run_tlc("ElementParams", cfg_text(["x"], shape, fx, va, la, ha, h, 1, True, enabled=en), dump=True, timeout=3600)
            try:
                v.add_tlc(f"histories shape={shape} fixed={fx} MaxHist={h} args={len(va)}/{len(la)}/{len(ha)} "
                          f"actions={'all' if en is None else 'core'} roles={len(ctx)}", res)
                replay_dump(v, "ElementParams", res.dump_path, h, judge_history, ctx, count_mult=len(ctx))
            finally:
                cleanup(res)
    for (shape, fx), ctx in sorted(pairs2.items()):
        if tier == "quick":
            ctx = ctx[:1]
            h, va, la, ha = 2, SMALL_VAL, SMALL_LO, SMALL_HI
        else:
            ctx = ctx[:2]
            h, va, la, ha = 2, FULL_VAL, FULL_LO, FULL_HI
        res = run_tlc("ElementParams", cfg_text(["x", "y"], shape, fx, va, la, ha, h, 2, True), dump=True, timeout=3600)
        try:
            v.add_tlc(f"two-key histories shape={shape} fixed={fx} MaxHist={h} roles={len(ctx)}", res)
            replay_dump(v, "ElementParams", res.dump_path, h, judge_history, ctx, count_mult=len(ctx))
        finally:
            cleanup(res)
    v.nontrivial = v.replayed
    v.extra["rule"] = ("every behaviour of specs/ElementParams.tla with exactly MaxHist calls, per limit shape; each replayed on "
                       "every registered (class, parameter) role of that shape (count = histories x roles) and compared with "
                       "the model after every call")
    v.extra["roles"] = n_roles
    v.assumptions += ["floats are abstracted to 9 ranks around each parameter's class defaults; magnitudes between ranks are not explored",
                      "bounded history length (MaxHist) as listed in tlc_runs"]
    return v.finish()
