"""C01 — circuit impedance obeys the series/parallel composition laws (specs/Impedance.tla).

TLC grows every circuit up to the bounds with a builder state machine, evaluates the exact
composition law (LawZ) and a transcription of the library's vectorised evaluation (ImplZ) on every
frequency vector and checks that they agree.  Every complete circuit is then built for real in three
ways (objects, parse_cdc, CircuitBuilder) and evaluated as an array and one frequency at a time
through Circuit.get_impedances, Connection.get_impedances and simulate_spectrum; the values must
equal the law's exact value.
"""
from __future__ import annotations

import math
import random

from . import tlaval
from .common import Verdict, ensure_repo_on_path, replay_states
from .tlc import run_tlc, cleanup, MachineryError, require_coverage

F1 = 0.15915494309189535          # 2*pi*F1 == 1.0 exactly in binary64
LEAVES = ["R0", "Rinf", "R1", "R2", "C1", "L1"]


def cfg_text(leaves, depth, kinds, nested_open=True, invariants=("ObeysLaw", "ArrayEqualsPointwise"), freq="all"):
    q = "{" + ", ".join(f'"{k}"' for k in kinds) + "}"
    inv = "".join(f"INVARIANT {i}\n" for i in invariants)
    return (f"SPECIFICATION Spec\nCONSTANTS\n    MaxLeaves = {leaves}\n    MaxDepth = {depth}\n    LeafKinds = {q}\n    FreqMode = \"{freq}\"\n"
            f"    NestedOpenIsOpen = {'TRUE' if nested_open else 'FALSE'}\n{inv}")


def leaf(kind):
    from pyimpspec.circuit.elements import Resistor, Capacitor, Inductor
    if kind == "R0":
        return Resistor(R=0.0)
    if kind == "Rinf":
        return Resistor(R=math.inf)
    if kind == "R1":
        return Resistor(R=1.0)
    if kind == "R2":
        return Resistor(R=2.0)
    if kind == "C1":
        return Capacitor(C=1.0)
    if kind == "L1":
        return Inductor(L=1.0)
    if kind == "L0":
        return Inductor(L=0.0)
    raise MachineryError(kind)


def build_objects(n):
    from pyimpspec.circuit.series import Series
    from pyimpspec.circuit.parallel import Parallel
    if n["t"] == "leaf":
        return leaf(n["kind"])
    items = [build_objects(x) for x in n["items"]]
    return Series(items) if n["t"] == "S" else Parallel(items)


def build_builder(n, b):
    for x in n["items"]:
        if x["t"] == "leaf":
            b.add(leaf(x["kind"]))
        else:
            with (b.series() if x["t"] == "S" else b.parallel()) as inner:
                build_builder(x, inner)


def show(n):
    return n["kind"] if n["t"] == "leaf" else n["t"] + "[" + ",".join(show(x) for x in n["items"]) + "]"


def exact(z):
    return complex(z["re"] / z["den"], z["im"] / z["den"])


def _evaluate(fn, freqs):
    """-> ('raise', exc_name) | ('ok', [complex])."""
    import numpy as np
    from pyimpspec.exceptions import ImpedanceError
    try:
        with np.errstate(all="ignore"):
            z = fn(np.array(freqs, dtype=float))
        return ("ok", [complex(x) for x in z])
    except ImpedanceError as e:
        return ("raise", type(e).__name__)


def _matches(got, law):
    """Compare a real evaluation with the law on the same frequency vector."""
    if law["raise"]:
        if got[0] == "raise":
            return True
        return any(abs(z) > 1e12 or math.isnan(abs(z)) for z in got[1])      # numerically singular instead of exactly open
    if got[0] == "raise":
        return False
    for z, lz in zip(got[1], law["z"]):
        w = exact(lz)
        if abs(z - w) > 1e-9 * max(1.0, abs(w)):
            return False
    return True


def judge_state(st, ctx):
    from pyimpspec import Circuit, parse_cdc, simulate_spectrum, CircuitBuilder
    from pyimpspec.exceptions import ParsingError
    stack = st["stack"]
    if len(stack) != 1 or not stack[0]["items"]:
        return [], 0, None
    tree = stack[0]
    ws = st["wvec"]
    law, impl = st["law"], st["impl"]
    freqs = [w * F1 for w in ws]
    case = {"circuit": show(tree), "w": list(ws)}
    res = []
    built = {"objects": Circuit(build_objects(tree))}
    text = built["objects"].to_string(12)
    try:
        built["parse_cdc"] = parse_cdc(text)
    except (ParsingError, ValueError):
        pass                       # degenerate API-only shapes / infinite values cannot be written as a CDC
    try:
        with CircuitBuilder() as b:
            build_builder(tree, b)
        built["builder"] = b.to_circuit()
    except (ParsingError, ValueError):
        pass
    for how, c in built.items():
        routes = {
            "Circuit.get_impedances(array)": lambda f, c=c: c.get_impedances(f),
            "Connection.get_impedances(array)": lambda f, c=c: c.get_connections(recursive=False)[0].get_impedances(f),
            "simulate_spectrum": lambda f, c=c: simulate_spectrum(c, f).get_impedances(),
        }
        for route, fn in routes.items():
            got = _evaluate(fn, freqs)
            if route == "simulate_spectrum" and len(freqs) > 1 and freqs[0] < freqs[1] and got[0] == "ok":
                got = ("ok", got[1][::-1])       # a DataSet stores descending frequencies
            if not _matches(got, law):
                partly = impl["raise"] and impl["why"] == "partly-open" and got[0] == "raise"
                sig = "partly-open-branch:array-raises" if partly else f"law-broken:{'raises' if got[0] == 'raise' else 'value'}:{how}"
                res.append(("violation", sig, dict(case, built=how, route=route),
                            f"{show(tree)} at w={list(ws)} via {how}/{route}: law {_fmt(law)}, implementation {got}"))
                return res, 1, case
        # one frequency at a time
        pts = [_evaluate(lambda f, c=c: c.get_impedances(f), [f]) for f in freqs]
        for k, p in enumerate(pts):
            lawk = {"raise": law_point_raise(st, k), "z": [law_point(st, k)]}
            if lawk["z"][0] is None:
                continue
            if not _matches(p, lawk):
                res.append(("violation", f"law-broken:pointwise:{how}", dict(case, built=how, k=k),
                            f"{show(tree)} at w={ws[k]} via {how}: law {_fmt(lawk)}, implementation {p}"))
                return res, 1, case
    return res, 1, case


def law_point(st, k):
    law = st["law"]
    if not law["raise"]:
        return law["z"][k]
    return None            # the law's vector result raised: pointwise values are not in the state


def law_point_raise(st, k):
    return False


def _fmt(law):
    return "open" if law["raise"] else [exact(z) for z in law["z"]]


# ---------------------------------------------------------------------------
# opaque leaves: every registered element type, random parameters, random frequency vectors
# ---------------------------------------------------------------------------

def random_circuits(v: Verdict, seed: int, n: int):
    import numpy as np
    from pyimpspec import Circuit, parse_cdc
    from pyimpspec.circuit.registry import get_elements
    from pyimpspec.circuit.series import Series
    from pyimpspec.circuit.parallel import Parallel
    from pyimpspec.exceptions import ImpedanceError
    rng = random.Random(seed)
    classes = sorted(get_elements(private=True).items())

    def rand_elem():
        sym, cls = rng.choice(classes)
        e = cls()
        lo, hi, dv = e.get_lower_limits(), e.get_upper_limits(), e.get_values()
        for k in dv:
            a = max(lo[k], dv[k] / 100) if not math.isinf(lo[k]) else dv[k] / 100
            b = min(hi[k], dv[k] * 100) if not math.isinf(hi[k]) else dv[k] * 100
            a, b = (a, b) if a < b else (b, a)
            if a > 0:
                e.set_values(k, math.exp(rng.uniform(math.log(a), math.log(b))))
            else:
                e.set_values(k, rng.uniform(a, b))
        return e

    def rand_tree(depth):
        if depth == 0 or rng.random() < 0.4:
            return rand_elem()
        items = [rand_tree(depth - 1) for _ in range(rng.randint(2, 3))]
        return Series(items) if rng.random() < 0.5 else Parallel(items)

    def ref(x, f):
        """independent pointwise evaluation over the leaves' own impedances"""
        from pyimpspec.circuit.base import Connection
        if not isinstance(x, Connection):
            return complex(x.get_impedances(np.array([f]))[0])
        zs = [ref(i, f) for i in x]
        if isinstance(x, Series):
            return sum(zs)
        return 1 / sum(1 / z for z in zs)

    for i in range(n):
        tree = rand_tree(rng.randint(1, 4))
        root = tree if isinstance(tree, Series) else Series([tree])
        c = Circuit(root)
        m = rng.randint(1, 7)
        freqs = [10 ** rng.uniform(-6, 9) for _ in range(m)]
        case = {"circuit": c.to_string(3), "frequencies": freqs}
        try:
            with np.errstate(all="ignore"):
                want = [ref(root, f) for f in freqs]
                got = [complex(z) for z in c.get_impedances(np.array(freqs))]
                pt = [complex(c.get_impedances(np.array([f]))[0]) for f in freqs]
                c2 = parse_cdc(c.serialize(17))
                got2 = [complex(z) for z in c2.get_impedances(np.array(freqs))]
        except (ImpedanceError, NotImplementedError, OverflowError, ZeroDivisionError):
            continue
        v.evaluations += 1
        v.sample(case, limit=8)
        for name, vals, tol in (("array", got, 1e-9), ("pointwise", pt, 1e-9), ("parsed", got2, 1e-6)):
            for w, z in zip(want, vals):
                if not (abs(z - w) <= tol * max(abs(w), 1e-300)) and not (math.isnan(abs(w)) or math.isinf(abs(w))):
                    v.report(f"law-broken:random:{name}", dict(case, want=str(w), got=str(z)),
                             f"{case['circuit']}: independent composition {w}, {name} evaluation {z}")
                    break


def selftest() -> int:
    ensure_repo_on_path()
    res = run_tlc("Impedance", cfg_text(2, 2, ["R1", "Rinf"], nested_open=False, invariants=("ObeysLaw",)))
    ok1 = res.violated == "ObeysLaw"
    st = {"stack": [{"t": "S", "kind": "", "items": [{"t": "leaf", "kind": "R1", "items": []}, {"t": "leaf", "kind": "R2", "items": []}]}],
          "wvec": [1], "impl": {"raise": False, "why": "", "z": [{"inf": False, "re": 3, "im": 0, "den": 1}]},
          "law": {"raise": False, "why": "", "z": [{"inf": False, "re": 3, "im": 0, "den": 1}]}}
    r1, _, _ = judge_state(st, None)
    st["law"]["z"][0]["re"] = 4
    r2, _, _ = judge_state(st, None)
    ok2 = not r1 and bool(r2)
    print("selftest C01:", "ok" if ok1 and ok2 else f"FAILED model={ok1} binding={ok2}")
    return 0 if ok1 and ok2 else 2


def replay(case) -> int:
    from .common import replay_state
    return replay_state(judge_state, case, "C01")


def run(tier: str, seed: int) -> int:
    ensure_repo_on_path()
    v = Verdict("C01", tier, seed)
    plans = ([(3, 2, ["R0", "Rinf", "C1", "L1"], "all"), (3, 3, ["Rinf", "R1"], "one")] if tier == "quick"
             else [(3, 2, LEAVES, "all"), (4, 2, ["R0", "Rinf", "C1", "L1"], "one"), (3, 3, ["R0", "Rinf", "R1", "C1"], "one")])
    for leaves, depth, kinds, freq in plans:
        res = run_tlc("Impedance", cfg_text(leaves, depth, kinds, freq=freq), dump=True, coverage=False, timeout=7200, heap="24g")
        try:
            v.add_tlc(f"leaves<={leaves} depth<={depth} kinds={len(kinds)} freq={freq}", res)
            if res.violated:
                v.model_violation("Impedance", res, "the transcription of the vectorised evaluation disagrees with the composition law")
            else:
                replay_states(v, res.dump_path, judge_state)
        finally:
            cleanup(res)
    # the named deviation must still be there as modelled (otherwise the model is stale)
    res = run_tlc("Impedance", cfg_text(3, 2, ["R1", "C1", "L1"], invariants=("ObeysLawStrict",)))
    v.extra["partly_open_deviation_reproduced_in_model"] = res.violated == "ObeysLawStrict"
    random_circuits(v, seed, 300 if tier == "quick" else 5000)
    v.evaluations += v.replayed
    v.extra["rule"] = ("every circuit grown by the builder of specs/Impedance.tla up to the bounds x every frequency vector; non-trivial = "
                       "complete circuits (incomplete builder states are skipped); plus random circuits over every registered element "
                       "type compared with an independent pointwise composition")
    v.assumptions += ["exact leaf semantics only for R(0), R(inf), R(1), R(2), C(1), L(1), L(0) at w in {1, 2}; other element types are opaque leaves in the random part"]
    return v.finish()
