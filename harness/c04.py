"""C04 — parse_cdc is total (specs/CDC.tla + CDCTotal.tla).

TLC enumerates every sequence of at most N lexical atoms, evaluates the scanner/parser model on it
and checks NoCrash / WellFormed in the model; every enumerated string is then given to the real
parse_cdc.  VIOLATION iff the real outcome is not a circuit / parsing error / tokenizing error /
explained ValueError, or an accepted circuit is not well formed.  Model-vs-code disagreements that
stay inside the allowed outcomes are DRIFT.
"""
from __future__ import annotations

from . import tlaval
from .cdcmodel import (atom_text, atoms_module, model_tree, real_tree, trees_equal, sort_subs, escape_site, parse_outcome,
                       accepted_is_well_formed)
from .common import Verdict, ensure_repo_on_path, replay_states
from .tlc import run_tlc, cleanup, MachineryError

ATOMS_FULL = ["R", "Q", "Tlm", "(", ")", "[", "]", "{", "}", "=", "/", "%", ",", ":", "!", "1", "-", ".", "e", "F",
              "inf", "open", "X_1", "V", "1e999", "sp"]
ATOMS_PARAM = ["R", "Q", "{", "}", "=", "/", "%", ",", ":", "1", "50", "-", "e", "F", "inf", "Y", "n", "a", "sp"]
ATOMS_SUB = ["R", "C", "Tlm", "(", ")", "[", "]", "{", "}", "=", ",", ":", "X_1", "short", "open", "a"]
ATOMS_PARAM2 = ["R{R=", "Q{Y=", "1", "/", "%", ",", "n=", ":", "a", "}", "inf", "F", "50", "-", "e", "sp", "2", "{"]
ATOMS_SUB2 = ["Tlm{", "X_1=", "X_2=", "R", "C", "[", "]", "(", ")", ",", "}", "open", "short", ":", "a", "L=", "1", "sp"]
ATOMS_HEAD = ["!", "V", "=", "1", "1e999", ".", "-", "F", "R", "[", "]", "e", "sp", "nonascii", "_", "+", "!V=", "1!"]   # compound atoms: the header alone fits in two


def cfg_text(atoms, first, max_atoms):
    q = lambda xs: "{" + ", ".join(f'"{x}"' for x in xs) + "}"  # noqa: E731
    return (f"SPECIFICATION Spec\nCONSTANTS\n    MaxAtoms = {max_atoms}\n    Atoms = {q(atoms)}\n    First = {q(first)}\n"
            "INVARIANT NoCrash\nINVARIANT WellFormed\n")


def judge_state(st, ctx):
    atoms = st["atoms"]
    text = "".join(atom_text(a) for a in atoms)
    want = st["out"]["err"]
    return judge_text(text, want, st["out"]["tree"] if want == "" else None, list(atoms))


def judge_text(text, want, want_tree, origin):
    res = []
    name, allowed, circuit, exc = parse_outcome(text)
    case = {"input": text, "atoms": origin, "model": want}
    nontrivial = 1 if (name == "" or want == "") else 0
    if not allowed:
        res.append(("violation", f"escape:{name}@{escape_site(exc)}", case,
                    f"parse_cdc({text!r}) raised {name}: {exc} (model: {want or 'accept'})"))
        return res, 1, case
    if circuit is not None:
        bad = accepted_is_well_formed(circuit)
        if bad:
            res.append(("violation", bad[0], case, f"parse_cdc({text!r}) accepted; {bad[1]}"))
    if want is not None and name != want:
        res.append(("drift", f"outcome:{want or 'accept'}->{name or 'accept'}", case,
                    f"{text!r}: model {want or 'accept'}, implementation {name or 'accept'}"))
    elif want == "" and want_tree is not None:
        a, b = sort_subs(model_tree(want_tree)), sort_subs(real_tree(circuit))
        if not trees_equal(a, b):
            res.append(("drift", "tree", case, f"{text!r}: model tree {a} != implementation {b}"))
    return res, nontrivial, (case if nontrivial else None)


MUT_CHARS = list("RCQ()[]{}=/%,:!1-.eF_ ") + ["é"]


def mutations(text, rng, double):
    """Single mutations at every position (deletion, insertion, substitution, truncation); a sample of double ones."""
    out = set()
    n = len(text)
    for k in range(n + 1):
        out.add(text[:k])                                   # truncation at every prefix
        for ch in MUT_CHARS[:: (1 if n < 40 else 4)]:
            out.add(text[:k] + ch + text[k:])               # insertion
        if k < n:
            out.add(text[:k] + text[k + 1:])                # deletion
            for ch in MUT_CHARS[:: (2 if n < 40 else 6)]:
                out.add(text[:k] + ch + text[k + 1:])       # substitution
    singles = sorted(out)
    if double:
        for s1 in rng.sample(singles, min(len(singles), 60)):
            k = rng.randrange(len(s1) + 1)
            out.add(s1[:k] + rng.choice(MUT_CHARS) + s1[k:])
            if s1:
                k = rng.randrange(len(s1))
                out.add(s1[:k] + s1[k + 1:])
    out.discard(text)
    return sorted(out)


def judge_string(st, ctx):
    texts = ctx["texts"]
    return judge_text(texts[st["i"] - 1], st["out"], None, ["mutation"])


def mutation_family(v: Verdict, tier: str, seed: int):
    import json as _json
    import os
    import random as _random
    import shutil
    from .cdcmodel import chars
    from .c03 import cfg_text as round_cfg
    from .tlc import scratch_dir
    rng = _random.Random(seed)
    seeds_ = []
    for focus, leaves, depth, mode in ([("shapes", 2, 1, "single"), ("params", 1, 0, "single"), ("subs", 1, 0, "canon"), ("labels", 1, 0, "canon")]):
        res = run_tlc("CDCRound", round_cfg(focus, leaves, depth, mode), dump=True, timeout=3600)
        try:
            texts = sorted({chars(st["text"]) for st in tlaval.iter_dump_states(res.dump_path)})
        finally:
            cleanup(res)
        seeds_ += rng.sample(texts, min(len(texts), {"quick": 4, "thorough": 12}[tier]))
    muts = sorted({m for t in seeds_ for m in mutations(t, rng, tier == "thorough")})
    if tier == "quick" and len(muts) > 5000:
        muts = rng.sample(muts, 5000)
    work = scratch_dir("c04-strings")
    path = os.path.join(work, "inputs.json")
    with open(path, "w") as fh:
        _json.dump([list(m) for m in muts], fh)
    try:
        res = run_tlc("CDCStrings", "SPECIFICATION Spec\nINVARIANT NoCrash\n", env={"INPUT_FILE": path}, dump=True, timeout=7200, heap="24g")
        try:
            v.add_tlc(f"mutations of {len(seeds_)} grammar-derived codes ({len(muts)} strings)", res)
            if res.violated:
                v.model_violation("CDCStrings", res, "the scanner/parser model reaches a crash outcome on a mutated code")
            else:
                replay_states(v, res.dump_path, judge_string, {"texts": muts})
        finally:
            cleanup(res)
    finally:
        shutil.rmtree(work, ignore_errors=True)


def selftest() -> int:
    ensure_repo_on_path()
    r1, _, _ = judge_text("R{R=1}", "", None, [])
    r2, _, _ = judge_text("R{R=1}", "UnexpectedToken", None, [])
    ok = (not r1) and bool(r2)
    print("selftest C04:", "ok" if ok else "FAILED")
    return 0 if ok else 2


def replay(case) -> int:
    ensure_repo_on_path()
    c = case["case"]
    res, _, _ = judge_text(c["input"], c.get("model"), None, c.get("atoms", []))
    for kind, sig, _, detail in res:
        print(f"replay C04: {kind} [{sig}] {detail}")
    return 1 if any(k == "violation" for k, *_ in res) else 0


def deep_inputs():
    out = []
    for n in (400, 1500, 6000):
        out += ["(" * n, "[" * n + "R" + "]" * n, "Tlm{X_1=" * n, ("Tlm{X_1=[" * n) + "R" + ("]}" * n), "(R" * n + ")" * n]
    return out


def run(tier: str, seed: int) -> int:
    ensure_repo_on_path()
    v = Verdict("C04", tier, seed)
    if tier == "quick":
        plans = [("full", ATOMS_FULL, 3), ("param", ATOMS_PARAM, 4), ("sub", ATOMS_SUB, 4), ("head", ATOMS_HEAD, 4),
                 ("param2", ATOMS_PARAM2, 4), ("sub2", ATOMS_SUB2, 4)]
    else:
        plans = [("full", ATOMS_FULL, 4), ("param", ATOMS_PARAM, 5), ("sub", ATOMS_SUB, 5), ("head", ATOMS_HEAD, 5),
                 ("param2", ATOMS_PARAM2, 5), ("sub2", ATOMS_SUB2, 5)]
    for name, atoms, n in plans:
        res = run_tlc("CDCTotal", cfg_text(atoms, atoms, n), dump=True, timeout=7200, heap="24g",
                      extra_modules={"CDCAtoms.tla": atoms_module(atoms)})
        try:
            v.add_tlc(f"atoms={name}({len(atoms)}) MaxAtoms={n}", res)
            if res.violated:
                v.model_violation("CDCTotal", res, "the scanner/parser model reaches a crash outcome or an ill-formed tree")
            else:
                replay_states(v, res.dump_path, judge_state)
        finally:
            cleanup(res)
    mutation_family(v, tier, seed)
    # nesting depth (the model's recursion is unbounded; the implementation's is not)
    for text in deep_inputs():
        r, _, _ = judge_text(text, None, None, ["deep"])
        v.evaluations += 1
        for kind, sig, case, detail in r:
            case = dict(case, input=case["input"][:40] + f"... ({len(text)} chars)")
            (v.report if kind == "violation" else v.drift)(sig, case, detail[:300])
    v.evaluations += v.replayed
    v.extra["rule"] = ("every sequence of <= MaxAtoms atoms from each atom alphabet (exhaustive), concatenated to a string and parsed "
                       "by the real parse_cdc; non-trivial = accepted by the model or by the implementation")
    v.assumptions += ["atom alphabets listed in tlc_runs; characters outside them behave like one of their class representatives"]
    return v.finish()
