"""Coverage extension: the (lower, upper) window of the automatic Kramers-Kronig test (specs/Suggest.tla, Part "limits").

Every terminal state of the model is replayed through the real `suggest_num_RC_limits` with duck-typed test
results and with the two numeric collaborators (`_approximate_transition_and_end_point`, method 5) substituted
harness-side by look-ups into the model's input record.  Disagreements are DRIFT (this is not one of the listed
properties' clauses); the `combine` part of the specification is model-checked only (see DESIGN §8).
"""
from __future__ import annotations

import math

from .common import ensure_repo_on_path, replay_states
from .tlc import run_tlc, cleanup

SHAPES = {"A": [2, 3, 4, 5, 6], "B": [1, 2, 3, 4, 5], "C": [2, 3, 5, 6, 7]}


def cfg_text(part, shape, wide=False):
    inv = ["NoCrash", "GapIndexError", "LimitsOrdered", "LimitsUpperInRange", "TopNeverEmpty"] if part == "limits" else \
          ["NoCrash", "SuggestedWithinLimits", "WindowNotEmpty", "TopNeverEmpty", "GridExact"]
    if shape == "C" and part == "limits":
        inv.remove("NoCrash")          # the named deviation: a user-given list with a gap (GapIndexError states where)
    return (f"SPECIFICATION Spec\nCONSTANTS\n    Part = \"{part}\"\n    Shape = \"{shape}\"\n    Wide = {'TRUE' if wide else 'FALSE'}\n"
            + "".join(f"INVARIANT {i}\n" for i in inv))


class _FakeTest:
    test = "complex"

    def __init__(self, n, level):
        self.num_RC = n
        self.pseudo_chisqr = 10.0 ** (-6 + 2 * level)     # log is numpy.log10 in the module: -4, -2, 0

    def get_frequencies(self):
        import numpy as np
        return np.logspace(4, 0, 41)


def judge_limits(st, ctx):
    if st["pc"] != "done":
        return [], 0, None
    import pyimpspec.analysis.kramers_kronig.algorithms as alg
    inp, out = st["inp"], st["out"]
    ns = SHAPES[ctx["shape"]]
    tests = [_FakeTest(n, inp["chi"][n]) for n in ns]
    thr = set(inp["thr"])

    def fake_transition(x, y):
        return inp["tl"], inp["tm"], (0.0, 0.0, 0.0, 0.0)

    def fake_m5(tests_, lower_limit=0, upper_limit=0, **kw):
        return {t.num_RC: (1.0 if t.num_RC in thr else 0.0) for t in tests_
                if (lower_limit <= 0 or t.num_RC >= lower_limit) and (upper_limit <= 0 or t.num_RC <= upper_limit)}

    saved = alg._approximate_transition_and_end_point, alg.suggest_num_RC_method_5
    alg._approximate_transition_and_end_point, alg.suggest_num_RC_method_5 = fake_transition, fake_m5
    try:
        try:
            got = alg.suggest_num_RC_limits(tests, inp["lower"], inp["upper"], inp["delta"], threshold=0.5)
            got = ("ok", int(got[0]), int(got[1]))
        except Exception as e:  # noqa: BLE001
            got = (type(e).__name__, None, None)
    finally:
        alg._approximate_transition_and_end_point, alg.suggest_num_RC_method_5 = saved
    want = (out["kind"], out["lo"], out["hi"]) if out["kind"] == "ok" else (out["kind"], None, None)
    case = {"shape": ctx["shape"], "inp": {k: (dict(v) if isinstance(v, dict) else (sorted(v) if isinstance(v, (set, list)) else v)) for k, v in inp.items()}}
    if got != want:
        return [("drift", f"suggest-limits:{want[0]}-vs-{got[0]}", case, f"model {want}; implementation {got}")], 1, None
    return [], 1, None


def run_extension(v, tier):
    ensure_repo_on_path()
    before = v.replayed
    for shape in (["C"] if tier == "quick" else ["A", "B", "C"]):
        res = run_tlc("Suggest", cfg_text("limits", shape, wide=(tier != "quick")), dump=True, timeout=1800)
        try:
            v.add_tlc(f"extension: Suggest.tla limits window, tests {SHAPES[shape]}", res)
            if res.violated:
                v.drift("model:Suggest", {}, f"Suggest.tla violates {res.violated} (shape {shape})")
            elif res.dump_path:
                replay_states(v, res.dump_path, judge_limits, {"shape": shape})
        finally:
            cleanup(res)
    v.extra["suggest_limits_states_replayed"] = v.replayed - before
