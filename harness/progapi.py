"""Replay of specs/ProgressApi.tla through pyimpspec.progress (spec -> code, part of C18).

Every behaviour of the model - register / unregister calls interleaved with the calls of one or two
nested Progress objects - is driven through the public API; after every call the notifications each
registered callback received, the return value, the exception class and get()/get_total() are
compared with the model's record.  Only the public API is used: handles are mapped through the values
register() returned, and the module-global marker is brought back to its initial value by running an
empty one-step Progress with no callback registered.

Verdicts (C18: "progress notifications delivered to registered callbacks always carry a fraction
between 0 and 1 and a message"; "never aborts part-way because of internal bookkeeping"):
  violation  a registered callback is not notified / is notified twice / an unregistered one is notified;
             a delivered fraction outside [0, 1] or without a message; a well-used call raises
  drift      anything else that differs from the model (value of the fraction, message token, handle
             numbering, exception class of a refusal, counter values)
"""
from __future__ import annotations

INV = ("INVARIANT HandlesUnique\nINVARIANT DeliveredInUnit\nPROPERTY NotifiesRegistered\nINVARIANT RefusalsAreSilent\n"
       "INVARIANT CounterWithinTotal\nPROPERTY UnregisterHonest\n")
ACTIONS = ["Register", "RegisterBad", "Unregister", "Enter", "Increment", "Exit"]


def cfg_registry(max_hist, max_cb=2):
    """Registry-heavy plan: one object with a coarse notification step, every unregister argument."""
    return (f"SPECIFICATION Spec\nCONSTANTS\n    MaxHist = {max_hist}\n    MaxCb = {max_cb}\n    Oids = {{1}}\n    EnterTotals = {{2}}\n"
            "    Steps = {50}\n    SetArgs = {}\n    NewTotals = {}\n    UnregArgs <- UnregAll\n    OneShots = {FALSE, TRUE}\n" + INV)


def cfg_machine(max_hist):
    """Machine-heavy plan: two nested objects, every call, one callback."""
    return (f"SPECIFICATION Spec\nCONSTANTS\n    MaxHist = {max_hist}\n    MaxCb = 1\n    Oids = {{1, 2}}\n    EnterTotals = {{0, 2, 3}}\n"
            "    Steps = {1, 50}\n    SetArgs = {0, 1, 3, 4}\n    NewTotals <- KeepOr3\n    UnregArgs = {1}\n    OneShots = {FALSE}\n" + INV)


MSG = {1: "outer", 2: "inner", 3: "message three", 4: "message four"}


class World:
    def __init__(self):
        from pyimpspec import progress as P
        self.P = P
        self.log = []
        self.handles = []          # real handle of the k-th successful register (model handle k + 1)
        self.live = set()          # indices of the callbacks that are registered (by the return values the code gave)
        self.objs = {}
        self.gone_during_call = set()

    def callback(self, k, once=False):
        def cb(*args, **kwargs):
            self.log.append((k, kwargs.get("progress", None), kwargs.get("message", None)))
            if once and k in self.live:
                # a one-shot listener: unregisters itself while the notification is being dispatched
                self.live.discard(k)
                self.gone_during_call.add(k)
                self.P.unregister(self.handles[k])
        return cb

    def real_handle(self, h):
        if h <= 0:
            return h
        if h <= len(self.handles):
            return self.handles[h - 1]
        return (max(self.handles) if self.handles else 0) + 1000 + h      # never issued

    def apply(self, rec):
        """-> (exception or None, return value)"""
        P = self.P
        op, oid = rec["op"], rec["oid"]
        self.log = []
        self.gone_during_call = set()
        try:
            if op == "register":
                k = len(self.handles)
                h = P.register(self.callback(k, once=bool(rec["f"])))
                self.handles.append(h)
                self.live.add(k)
                return None, h
            if op == "register-bad":
                return None, P.register("not callable")
            if op == "unregister":
                arg = "1" if rec["f"] else self.real_handle(rec["x"])
                ok = P.unregister(arg)
                if ok:
                    hit = [c for c in sorted(self.live) if self.handles[c] == arg]
                    if hit:
                        self.live.discard(hit[-1])       # a dict keeps the latest registration of a (reused) handle
                return None, ok
            if op == "enter":
                o = P.Progress(MSG[oid], total=rec["x"], N=float(rec["y"]))
                o.__enter__()
                self.objs[oid] = o
                return None, None
            o = self.objs[oid]
            if op == "inc":
                o.increment(step=rec["x"], force=rec["f"])
            elif op == "set":
                o.set(rec["x"])
            elif op == "msg":
                o.set_message(MSG[rec["msg"]], i=rec["x"], total=rec["y"], force=rec["f"])
            elif op == "exit":
                try:
                    o.__exit__(None, None, None)
                finally:
                    self.objs.pop(oid, None)
            else:
                raise AssertionError(op)
            return None, None
        except AssertionError:
            raise
        except Exception as e:  # noqa: BLE001
            return e, None

    def cleanup(self):
        P = self.P
        for h in set(self.handles):
            try:
                P.unregister(h)
            except Exception:  # noqa: BLE001
                pass
        # bring the module-global marker back to its initial value through the public API; with every handle
        # unregistered this must be silent - a notification here means the table still holds a callback
        self.log = []
        try:
            with P.Progress("reset", total=1):
                pass
        except Exception:  # noqa: BLE001
            pass
        leaked = sorted({e[0] for e in self.log})
        if leaked:
            global _POISONED
            try:
                P._CALLBACKS.clear()          # best effort, so that the remaining behaviours start from an empty table
            except Exception:  # noqa: BLE001
                _POISONED = True              # cannot be emptied: later behaviours in this worker are not replayed
        return leaked


_POISONED = False


def _pm(x):
    try:
        x = float(x)
    except Exception:  # noqa: BLE001
        return None
    if x != x:
        return None
    return int(round(x * 1000))


def judge_api_history(hist, ctx):
    if _POISONED:
        return []
    w = World()
    res = []
    pending = None
    leaked = []
    try:
        for k, rec in enumerate(hist):
            op = rec["op"]
            exc, ret = w.apply(rec)
            want_err = rec["err"]
            tag = op
            if want_err == "" and exc is not None:
                res.append(("violation", f"progress-api:{tag}:raises:{type(exc).__name__}", k,
                            f"model: {op} succeeds; implementation raised {type(exc).__name__}: {exc}", {}))
                break
            if want_err != "" and exc is None:
                res.append(("drift", f"progress-api:{tag}:accepted", k, f"model: refused with {want_err}; implementation accepted", {}))
                break
            if want_err != "" and type(exc).__name__ != want_err:
                res.append(("drift", f"progress-api:{tag}:{type(exc).__name__}-for-{want_err}", k, f"model {want_err}; implementation {type(exc).__name__}: {exc}", {}))
                break
            # ---- deliveries (the property's clause) ----
            notified = [e[0] for e in w.log]
            model_cbs = [h - 1 for h in rec["cbs"]]     # model handle h = callback index h - 1
            bad_payload = [e for e in w.log if not (isinstance(e[2], str) and e[2].strip() != "")
                           or not isinstance(e[1], (int, float)) or isinstance(e[1], bool) or not (0.0 <= float(e[1]) <= 1.0)]
            if bad_payload:
                res.append(("violation", f"progress-api:{tag}:delivery-outside-unit-interval-or-without-message", k,
                            f"callback {bad_payload[0][0]} received progress={bad_payload[0][1]!r} message={bad_payload[0][2]!r}", {}))
                break
            emitted = len(w.log) > 0
            if emitted:
                registered = sorted(w.live | w.gone_during_call)       # registered when the emission started
                stale = [c for c in notified if c not in registered]
                missing = [c for c in registered if c not in notified]
                twice = sorted(c for c in set(notified) if notified.count(c) > 1)      # a call emits at most one notification
                if stale:
                    res.append(("violation", f"progress-api:{tag}:unregistered-callback-notified", k,
                                f"callback(s) {stale} are not registered but received a notification", {}))
                    break
                if missing:
                    res.append(("violation", f"progress-api:{tag}:registered-callback-not-notified", k,
                                f"callback(s) {missing} are registered but were not notified (notified: {notified})", {}))
                    break
                if twice:
                    res.append(("violation", f"progress-api:{tag}:callback-notified-twice", k, f"callback(s) {twice} received more than one notification from one call", {}))
                    break
            # ---- everything else: model vs implementation ----
            observable = bool(w.live)
            if not observable:
                if rec["amb"]:
                    break          # nobody listens: which side of a float boundary the code took cannot be seen
            else:
                got_vals = sorted({_pm(e[1]) for e in w.log})
                want_vals = list(rec["emits"])
                alts = [list(a) for a in rec["alts"]]
                if got_vals != want_vals:
                    if rec["amb"] and got_vals in alts:
                        break      # the float comparison took the sibling branch: that behaviour is replayed separately
                    res.append(("drift", f"progress-api:{tag}:emission-differs", k, f"model emits {want_vals} (per mille); implementation delivered {got_vals}", {}))
                    break
                if rec["amb"] and len(alts) < 2:
                    break          # both branches emit the same value: the marker cannot be told apart
                if emitted:
                    if notified != model_cbs:
                        res.append(("drift", f"progress-api:{tag}:notification-order", k, f"model order {model_cbs}; implementation {notified}", {}))
                        break
                    msgs = {e[2] for e in w.log}
                    if msgs != {MSG[rec["msg"]]}:
                        res.append(("drift", f"progress-api:{tag}:message-differs", k, f"model message {MSG[rec['msg']]!r}; delivered {sorted(msgs)}", {}))
                        break
            if op == "register" and pending is None:
                if not isinstance(ret, int) or any(ret <= h for h in w.handles[:-1]):
                    # not reported at once: if the reused handle displaced a registered callback, the next emission shows it
                    pending = ("drift", "progress-api:register:handle-not-fresh", k, f"register returned {ret!r} after {w.handles[:-1]}", {})
            if op == "unregister" and want_err == "" and bool(ret) != (rec["ret"] == 1):
                res.append(("drift", "progress-api:unregister:return-value", k, f"model {rec['ret'] == 1}; implementation {ret!r}", {}))
                break
            if op in ("enter", "inc", "set", "msg") and want_err == "" and rec["oid"] in w.objs:
                o = w.objs[rec["oid"]]
                if (o.get(), o.get_total()) != (rec["i"], rec["total"]):
                    res.append(("drift", f"progress-api:{tag}:counter", k, f"model i={rec['i']} total={rec['total']}; implementation {o.get()} / {o.get_total()}", {}))
                    break
        if not res and pending is not None:
            res.append(pending)
    finally:
        leaked = w.cleanup()
    if leaked and not [r for r in res if r[0] == "violation"]:
        res = [("violation", "progress-api:unregistered-callback-notified-after-the-behaviour", len(hist) - 1,
                f"every handle was unregistered, yet callback(s) {leaked} still received a notification", {})]
    return res
