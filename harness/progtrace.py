"""Recorder for pyimpspec.progress.Progress (harness-side wrappers, active only inside record())."""
from __future__ import annotations

import contextlib
import traceback


class Recorder:
    def __init__(self):
        self.events = []
        self._emits = None
        self._ids = {}
        self._depth = 0

    # the callback registered through the public API
    def callback(self, *args, **kwargs):
        pm = kwargs.get("progress")
        msg = kwargs.get("message")
        ok = isinstance(msg, str) and msg.strip() != ""
        try:
            x = float(pm)
            # the unit interval is checked on the float itself: 1.0000000000000007 is outside
            val = 1001 if x > 1.0 else (-1 if x < 0.0 else int(round(x * 1000)))
            if x != x:
                val = -777777
        except Exception:  # noqa: BLE001
            val = -999999
        if not ok:
            val = -888888         # a notification without a message can never be "in the unit interval"
        if self._emits is not None:
            self._emits.append(val)
        else:
            self.events.append({"ev": "stray-emit", "emits": [val]})

    def oid(self, obj, new=False):
        k = id(obj)
        if new or k not in self._ids:
            used = set(self._ids.values())
            n = 1
            while n in used:
                n += 1
            self._ids[k] = n
        return self._ids[k]

    def release(self, obj):
        self._ids.pop(id(obj), None)


@contextlib.contextmanager
def record():
    """Patch Progress for the duration of one analysis call; yields the Recorder."""
    from pyimpspec import progress as P
    rec = Recorder()
    C = P.Progress
    orig = {n: getattr(C, n) for n in ("__init__", "__enter__", "__exit__", "increment", "set", "set_message")}
    steps = {}

    def init_wrapper(self, *a, **kw):
        n = kw.get("N", 1.0)
        steps[id(self)] = int(n) if float(n) == int(n) else -1
        return orig["__init__"](self, *a, **kw)

    def wrap(name, make_event):
        fn = orig[name]

        def wrapper(self, *a, **kw):
            outer = rec._emits
            rec._emits = []
            err = ""
            try:
                return fn(self, *a, **kw)
            except BaseException as e:  # noqa: BLE001
                err = type(e).__name__
                raise
            finally:
                ev = make_event(self, a, kw)
                ev["emits"] = rec._emits
                ev["err"] = err
                if rec._depth == 0:
                    rec.events.append(ev)
                elif outer is not None:
                    outer.extend(rec._emits)      # a call made by __exit__: its notifications belong to the exit event
                rec._emits = outer
        return wrapper

    def ev_enter(self, a, kw):
        return {"ev": "enter", "oid": rec.oid(self, new=True), "total": int(self.get_total()), "n": steps.get(id(self), 1)}

    def ev_exit(self, a, kw):
        e = {"ev": "exit", "oid": rec.oid(self), "i": int(self.get())}
        rec.release(self)
        return e

    def ev_inc(self, a, kw):
        step = kw.get("step", a[0] if len(a) > 0 else 1)
        force = kw.get("force", a[1] if len(a) > 1 else False)
        return {"ev": "inc", "oid": rec.oid(self), "step": int(step), "force": bool(force), "i": int(self.get())}

    def ev_set(self, a, kw):
        arg = kw.get("i", a[0] if a else 0)
        return {"ev": "set", "oid": rec.oid(self), "arg": int(arg), "i": int(self.get())}

    def ev_msg(self, a, kw):
        i = kw.get("i", a[1] if len(a) > 1 else -1)
        total = kw.get("total", a[2] if len(a) > 2 else -1)
        force = kw.get("force", a[3] if len(a) > 3 else True)
        return {"ev": "msg", "oid": rec.oid(self), "seti": bool(i >= 0), "newtotal": int(total), "force": bool(force),
                "i": int(self.get()), "total": int(self.get_total())}

    # __exit__ calls self.increment(): record it as one "exit" event, not as an extra "inc"
    def exit_wrapper(self, *a, **kw):
        outer = rec._emits
        rec._emits = []
        err = ""
        rec._depth += 1
        try:
            return orig["__exit__"](self, *a, **kw)
        except BaseException as e:  # noqa: BLE001
            err = type(e).__name__
            raise
        finally:
            rec._depth -= 1
            ev = ev_exit(self, a, kw)
            ev["emits"] = rec._emits
            ev["err"] = err
            rec._emits = outer
            rec.events.append(ev)

    C.__init__ = init_wrapper
    C.__enter__ = wrap("__enter__", ev_enter)
    C.increment = wrap("increment", ev_inc)
    C.set = wrap("set", ev_set)
    C.set_message = wrap("set_message", ev_msg)
    C.__exit__ = exit_wrapper
    ident = P.register(rec.callback)
    try:
        yield rec
    finally:
        P.unregister(ident)
        for n, f in orig.items():
            setattr(C, n, f)


LIB_ERRORS = ("KramersKronigError", "FittingError", "DRTError", "ZHITError", "ImpedanceError", "InfiniteImpedance",
              "NotANumberImpedance", "InfiniteLimit", "InvalidEquation", "ParsingError", "UnsupportedFileFormat")


def classify(exc: BaseException, events) -> dict:
    """Outcome of a call that raised: which of the classes of C18 it falls in."""
    import pyimpspec.exceptions as X
    name = type(exc).__name__
    started = any(e["ev"] == "inc" for e in events)
    tb = traceback.extract_tb(exc.__traceback__)
    inner = tb[-1] if tb else None
    site = "?"
    for fr in tb:
        if "/pyimpspec/" in fr.filename:
            site = fr.filename.split("/pyimpspec/")[-1].replace("/", ".").removesuffix(".py") + "." + fr.name
    is_lib = isinstance(exc, tuple(getattr(X, n) for n in dir(X) if isinstance(getattr(X, n), type) and issubclass(getattr(X, n), Exception)))
    deliberate = inner is not None and "/pyimpspec/" in inner.filename and (inner.line or "").lstrip().startswith(("raise", "f\"", "\"", ")"))
    in_progress = inner is not None and inner.filename.endswith("pyimpspec/progress.py")
    if is_lib:
        outcome = "library-error"
    elif in_progress:
        outcome = "bookkeeping"
    elif isinstance(exc, (ValueError, TypeError)) and deliberate:
        outcome = "refused-late" if started else "refused-upfront"
    else:
        outcome = "unhandled"
    return {"outcome": outcome, "cls": name, "site": site, "message": str(exc)[:200]}
