"""Reader for TLA+ values as printed by TLC (dump files, PrintT output, simulate traces).

Mapping:  <<a, b>> -> list;  {a, b} -> frozenset (or sorted tuple if unhashable -> TlaSet list);
[k |-> v] -> dict;  (k :> v @@ ...) -> dict;  "s" -> str;  12 / -3 -> int;  TRUE/FALSE -> bool;
bare identifier (model value) -> MV(name).
"""
from __future__ import annotations


class MV(str):
    """A TLC model value (bare identifier)."""

    def __repr__(self):
        return f"MV({str.__repr__(self)})"


class TlaSet(list):
    """A set whose members are not hashable in Python (kept in TLC's print order)."""


class ParseError(Exception):
    pass


_WS = " \t\r\n"
_IDCH = set("abcdefghijklmnopqrstuvwxyzABCDEFGHIJKLMNOPQRSTUVWXYZ0123456789_")


def _hashable(v):
    if isinstance(v, list):
        return tuple(_hashable(x) for x in v)
    if isinstance(v, dict):
        return tuple(sorted((_hashable(k), _hashable(x)) for k, x in v.items()))
    return v


class _P:
    __slots__ = ("s", "i", "n")

    def __init__(self, s: str, i: int = 0):
        self.s = s
        self.i = i
        self.n = len(s)

    def ws(self):
        s, i, n = self.s, self.i, self.n
        while i < n and s[i] in _WS:
            i += 1
        self.i = i

    def expect(self, tok: str):
        self.ws()
        if not self.s.startswith(tok, self.i):
            raise ParseError(f"expected {tok!r} at {self.i}: {self.s[self.i:self.i+40]!r}")
        self.i += len(tok)

    def peek(self, tok: str) -> bool:
        self.ws()
        return self.s.startswith(tok, self.i)

    def value(self):
        self.ws()
        s = self.s
        if self.i >= self.n:
            raise ParseError("unexpected end")
        c = s[self.i]
        if c == "<" and s.startswith("<<", self.i):
            self.i += 2
            out = []
            if self.peek(">>"):
                self.i += 2
                return out
            while True:
                out.append(self.value())
                self.ws()
                if s.startswith(">>", self.i):
                    self.i += 2
                    return out
                self.expect(",")
        if c == "{":
            self.i += 1
            items = []
            if self.peek("}"):
                self.i += 1
                return frozenset()
            while True:
                items.append(self.value())
                self.ws()
                if s[self.i] == "}":
                    self.i += 1
                    break
                self.expect(",")
            try:
                return frozenset(items)
            except TypeError:
                return TlaSet(items)
        if c == "[":
            self.i += 1
            out = {}
            if self.peek("]"):
                self.i += 1
                return out
            while True:
                self.ws()
                j = self.i
                while j < self.n and s[j] in _IDCH:
                    j += 1
                key = s[self.i:j]
                self.i = j
                self.expect("|->")
                out[key] = self.value()
                self.ws()
                if s[self.i] == "]":
                    self.i += 1
                    return out
                self.expect(",")
        if c == "(":
            self.i += 1
            out = {}
            while True:
                k = self.value()
                self.expect(":>")
                v = self.value()
                out[_hashable(k)] = v
                self.ws()
                if s[self.i] == ")":
                    self.i += 1
                    return out
                self.expect("@@")
        if c == '"':
            j = self.i + 1
            buf = []
            while s[j] != '"':
                if s[j] == "\\":
                    j += 1
                    ch = s[j]
                    buf.append({"n": "\n", "t": "\t", "r": "\r", "f": "\f"}.get(ch, ch))
                else:
                    buf.append(s[j])
                j += 1
            self.i = j + 1
            return "".join(buf)
        if c == "-" or c.isdigit():
            j = self.i + 1
            while j < self.n and s[j].isdigit():
                j += 1
            v = int(s[self.i:j])
            self.i = j
            if s.startswith("..", j):          # TLC prints a set of consecutive integers as an interval a..b
                k = j + 2
                while k < self.n and (s[k].isdigit() or (k == j + 2 and s[k] == "-")):
                    k += 1
                hi = int(s[j + 2:k])
                self.i = k
                return TlaSet(range(v, hi + 1))
            return v
        if c in _IDCH:
            j = self.i
            while j < self.n and s[j] in _IDCH:
                j += 1
            word = s[self.i:j]
            self.i = j
            if word == "TRUE":
                return True
            if word == "FALSE":
                return False
            return MV(word)
        raise ParseError(f"unexpected {c!r} at {self.i}: {s[self.i:self.i+40]!r}")


def parse_value(text: str):
    p = _P(text)
    v = p.value()
    p.ws()
    if p.i != p.n:
        raise ParseError(f"trailing text at {p.i}: {text[p.i:p.i+40]!r}")
    return v


def parse_state(block: str) -> dict:
    """Parse a conjunction `/\\ var = value /\\ var2 = value2` (one dump state) into a dict."""
    p = _P(block)
    out = {}
    while True:
        p.ws()
        if p.i >= p.n:
            return out
        if p.peek("/\\"):
            p.i += 2
        p.ws()
        j = p.i
        while j < p.n and p.s[j] in _IDCH:
            j += 1
        name = p.s[p.i:j]
        if not name:
            raise ParseError(f"expected variable name at {p.i}: {p.s[p.i:p.i+40]!r}")
        p.i = j
        p.expect("=")
        out[name] = p.value()


def iter_dump_states(path: str):
    """Yield each state of a TLC `-dump` file as a dict var -> value."""
    buf = []
    with open(path, "r") as fh:
        for line in fh:
            if line.startswith("State "):
                if buf:
                    yield parse_state("".join(buf))
                    buf = []
            elif line.strip():
                buf.append(line)
    if buf:
        yield parse_state("".join(buf))


def dump_ranges(path: str, parts: int):
    """Split a dump file into byte ranges (start, end) for parallel reading."""
    import os
    size = os.path.getsize(path)
    step = max(size // parts, 1)
    return [(i * step, size if i == parts - 1 else (i + 1) * step) for i in range(parts) if i * step < size]


def iter_dump_range(path: str, start: int, end: int):
    """Yield the states whose `State n:` header line begins in [start, end)."""
    with open(path, "rb") as fh:
        fh.seek(start)
        if start > 0:
            fh.seek(start - 1)
            fh.readline()  # finish the line that straddles the boundary
        buf = []
        active = False
        while True:
            pos = fh.tell()
            line = fh.readline()
            if not line:
                break
            if line.startswith(b"State "):
                if buf and active:
                    yield parse_state(b"".join(buf).decode())
                buf = []
                if pos >= end:
                    active = False
                    break
                active = True
            elif active and line.strip():
                buf.append(line)
        if buf and active:
            yield parse_state(b"".join(buf).decode())


def to_jsonable(v):
    if isinstance(v, MV):
        return {"$mv": str(v)}
    if isinstance(v, (frozenset, TlaSet)):
        items = [to_jsonable(x) for x in v]
        try:
            items.sort(key=lambda x: repr(x))
        except TypeError:
            pass
        return {"$set": items}
    if isinstance(v, list) or isinstance(v, tuple):
        return [to_jsonable(x) for x in v]
    if isinstance(v, dict):
        if all(isinstance(k, str) for k in v):
            return {k: to_jsonable(x) for k, x in v.items()}
        return {"$fun": [[to_jsonable(k), to_jsonable(x)] for k, x in v.items()]}
    return v


def from_jsonable(v):
    if isinstance(v, dict):
        if set(v.keys()) == {"$mv"}:
            return MV(v["$mv"])
        if set(v.keys()) == {"$set"}:
            items = [from_jsonable(x) for x in v["$set"]]
            try:
                return frozenset(items)
            except TypeError:
                return TlaSet(items)
        if set(v.keys()) == {"$fun"}:
            return {_hashable(from_jsonable(k)): from_jsonable(x) for k, x in v["$fun"]}
        return {k: from_jsonable(x) for k, x in v.items()}
    if isinstance(v, list):
        return [from_jsonable(x) for x in v]
    return v
