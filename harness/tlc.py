"""Run TLC and read what it reports."""
from __future__ import annotations

import os
import re
import shutil
import subprocess
import tempfile
import time
from dataclasses import dataclass, field

VERIF = os.path.dirname(os.path.dirname(os.path.abspath(__file__)))
SPECS = os.path.join(VERIF, "specs")
SCRATCH = os.path.join(VERIF, ".scratch")
JAR = "/opt/veriftools/tla/tla2tools.jar:/opt/veriftools/tla/CommunityModules-deps.jar"


class MachineryError(Exception):
    """The verification machinery itself failed (exit code 2), not the property."""


def sweep_scratch(max_age_s: int = 3 * 3600):
    """Remove scratch directories left behind by runs that were killed (older than max_age_s)."""
    if not os.path.isdir(SCRATCH):
        return
    now = time.time()
    for name in os.listdir(SCRATCH):
        p = os.path.join(SCRATCH, name)
        try:
            if os.path.isdir(p) and now - os.path.getmtime(p) > max_age_s:
                shutil.rmtree(p, ignore_errors=True)
        except OSError:
            pass


def scratch_dir(prefix: str) -> str:
    os.makedirs(SCRATCH, exist_ok=True)
    return tempfile.mkdtemp(prefix=prefix + "-", dir=SCRATCH)


@dataclass
class TlcResult:
    ok: bool                       # TLC finished without reporting a violation/error
    generated: int = 0
    distinct: int = 0
    depth: int = 0
    wall_s: float = 0.0
    output: str = ""
    violated: str | None = None    # name of violated invariant/property, if any
    error_trace: list = field(default_factory=list)
    coverage: dict = field(default_factory=dict)   # action name -> (distinct, total)
    printed: list = field(default_factory=list)    # PrintT lines (raw)
    dump_path: str | None = None
    complete: bool = False         # BFS finished ("Model checking completed")


_RE_STATS = re.compile(r"(\d+) states generated, (\d+) distinct states found, (\d+) states left on queue")
_RE_DEPTH = re.compile(r"The depth of the complete state graph search is (\d+)")
_RE_INV = re.compile(r"Error: Invariant (\S+) is violated")
_RE_PROP = re.compile(r"Error: (?:Action property|Temporal properties|Property) ?(\S*) ?(?:is|were) violated")
_RE_COV = re.compile(r"^<(\w+) line (\d+), col \d+ to line \d+, col \d+ of module (\w+)>: (\d+):(\d+)", re.M)


def run_tlc(
    module: str,
    cfg: str,
    *,
    workers: int | str = 16,
    dump: bool = False,
    coverage: bool = False,
    simulate: str | None = None,
    depth: int | None = None,
    seed: int | None = None,
    env: dict | None = None,
    timeout: int = 1800,
    extra_modules: dict | None = None,
    deadlock: bool = False,
    keep_dir: bool = False,
    jvm_opts: list | None = None,
    heap: str = "8g",
) -> TlcResult:
    """Run TLC on specs/<module>.tla with specs/<cfg> (cfg may also be literal cfg text).

    extra_modules: {"MC_x.tla": text} written beside a copy of the specs (generated constants).
    The spec directory is copied to a scratch dir so parallel runs do not share TLC metadata.
    """
    work = scratch_dir(f"tlc-{module}")
    done = False
    try:
        for fn in os.listdir(SPECS):
            if fn.endswith(".tla") or fn.endswith(".cfg"):
                shutil.copy(os.path.join(SPECS, fn), os.path.join(work, fn))
        for fn, text in (extra_modules or {}).items():
            with open(os.path.join(work, fn), "w") as fh:
                fh.write(text)
        if "\n" in cfg or cfg.strip().startswith(("SPECIFICATION", "INIT", "CONSTANT")):
            cfg_name = f"_gen_{module}.cfg"
            with open(os.path.join(work, cfg_name), "w") as fh:
                fh.write(cfg)
        else:
            cfg_name = cfg
        cmd = ["java", "-XX:+UseParallelGC", f"-Xmx{heap}", "-Xss512m", f"-Djava.io.tmpdir={work}"]   # SANY unpacks its modules there
        cmd += jvm_opts or []
        cmd += ["-cp", JAR, "tlc2.TLC", "-workers", str(workers), "-metadir", os.path.join(work, "states"),
                "-noGenerateSpecTE", "-config", cfg_name]
        if not deadlock:
            cmd += ["-deadlock"]  # -deadlock = do NOT check for deadlock
        if coverage:
            cmd += ["-coverage", "1"]
        dump_path = None
        if dump:
            dump_path = os.path.join(work, "dump")
            cmd += ["-dump", dump_path]
        if simulate:
            cmd += ["-simulate", simulate]
        if depth is not None:
            cmd += ["-depth", str(depth)]
        if seed is not None:
            cmd += ["-seed", str(seed)]
        cmd += [module + ".tla"]
        e = dict(os.environ)
        e.update(env or {})
        t0 = time.time()
        try:
            proc = subprocess.run(cmd, cwd=work, env=e, capture_output=True, text=True, timeout=timeout)
        except subprocess.TimeoutExpired as ex:
            raise MachineryError(f"TLC timed out after {timeout}s on {module}/{cfg_name}") from ex
        out = proc.stdout + proc.stderr
        res = TlcResult(ok=False, output=out, wall_s=time.time() - t0)
        m = None
        for m in _RE_STATS.finditer(out):
            pass
        if m:
            res.generated, res.distinct = int(m.group(1)), int(m.group(2))
        m = _RE_DEPTH.search(out)
        if m:
            res.depth = int(m.group(1))
        res.complete = "Model checking completed. No error has been found." in out
        m = _RE_INV.search(out)
        if m:
            res.violated = m.group(1)
        else:
            m = _RE_PROP.search(out)
            if m:
                res.violated = m.group(1) or "property"
        if res.violated:
            res.error_trace = _parse_error_trace(out)
        for m in _RE_COV.finditer(out):
            name = m.group(1)
            d, t = int(m.group(4)), int(m.group(5))
            pd, pt = res.coverage.get(name, (0, 0))
            res.coverage[name] = (pd + d, pt + t)
        res.printed = [ln for ln in proc.stdout.splitlines() if ln.startswith(('"', "<<", "[", "{"))]
        if dump_path:
            real = dump_path + ".dump"
            if os.path.exists(real):
                res.dump_path = real
            keep_dir = True
        res.ok = (res.complete or (simulate is not None and res.violated is None
                                   and "Error:" not in out)) and res.violated is None
        if not res.ok and res.violated is None:
            # Neither completed nor a property violation: parse/semantic/evaluation error.
            tail = "\n".join(out.splitlines()[-40:])
            raise MachineryError(f"TLC failed on {module}/{cfg_name} (rc={proc.returncode}):\n{tail}")
        res._work = work  # type: ignore[attr-defined]
        done = True
        return res
    finally:
        if not keep_dir or not done:
            shutil.rmtree(work, ignore_errors=True)


def cleanup(res: TlcResult):
    w = getattr(res, "_work", None)
    if w:
        shutil.rmtree(w, ignore_errors=True)


def _parse_error_trace(out: str) -> list:
    """Return the counterexample as a list of (header, state_text)."""
    states = []
    cur = None
    for ln in out.splitlines():
        if re.match(r"^State \d+: ", ln):
            if cur:
                states.append(cur)
            cur = [ln, []]
        elif cur is not None:
            if ln.strip() == "" or ln.startswith(("Error:", "Finished", "The ", "Progress", "End of")) or re.match(r"^\d+ states generated", ln):
                states.append(cur)
                cur = None
            else:
                cur[1].append(ln)
    if cur:
        states.append(cur)
    return [(h, "\n".join(b)) for h, b in states]


def require_coverage(res: TlcResult, actions: list[str]):
    """Vacuity guard: every named action must have been taken at least once."""
    missing = [a for a in actions if res.coverage.get(a, (0, 0))[1] == 0]
    if missing:
        raise MachineryError(f"vacuous model run: actions never taken: {missing}")
