"""C03 — one circuit per circuit description code, however spelled (specs/CDC.tla + CDCRound.tla).

TLC enumerates (generator tree, spelling options) pairs and checks on the parser MODEL that every
spelling denotes NormRoot(tree) and that printing is idempotent.  Every pair is then replayed: the
spelled text goes through the real parse_cdc and the result is compared with the generator's tree
(the oracle); the tree is also built through the API, serialised, re-parsed, deep-copied and
re-serialised by the real code.
"""
from __future__ import annotations

import copy as _copy
import math

from . import tlaval
from .cdcmodel import norm_tree, model_tree, real_tree, trees_equal, sort_subs, parse_outcome, chars, dec_to_float, escape_site
from .common import Verdict, ensure_repo_on_path, replay_states
from .tlc import run_tlc, cleanup, MachineryError


def cfg_text(focus, leaves, depth, mode):
    return (f"SPECIFICATION Spec\nCONSTANTS\n    Focus = \"{focus}\"\n    MaxLeaves = {leaves}\n    MaxDepth = {depth}\n"
            f"    OptMode = \"{mode}\"\nINVARIANT Denotes\nINVARIANT Idempotent\nINVARIANT Unrepresentable\n")


# ---------------------------------------------------------------------------

def build_real(n):
    """Generator tree -> real objects through the public API."""
    from pyimpspec.circuit.registry import get_elements
    from pyimpspec.circuit.series import Series
    from pyimpspec.circuit.parallel import Parallel
    if n["t"] == "conn":
        items = [build_real(x) for x in n["items"]]
        return Series(items) if n["kind"] == "S" else Parallel(items)
    cls = get_elements(private=True)[chars(n["sym"])]
    kw = {}
    for sd in n["subs"]:
        kw[chars(sd["key"])] = None if sd["open"] else build_real(sd["con"])
    e = cls(**kw)
    for p in n["ps"]:
        k = chars(p["key"])
        v, lo, hi = dec_to_float(p["v"]), dec_to_float(p["lo"]), dec_to_float(p["hi"])
        e.set_lower_limits(k, -math.inf)
        e.set_upper_limits(k, hi)
        e.set_lower_limits(k, lo)
        e.set_values(k, v)
        e.set_fixed(k, bool(p["fx"]))
    e.set_label(chars(n["label"]))
    return e


def _is_canon(o):
    return (not o["omit"] and o["lim"] == "full" and not o["flow"] and o["short"] == "short" and o["open"] == "open"
            and not o["bare"] and o["ws"] == "canon" and o["outer"])


def _impedances(c):
    import numpy as np
    from pyimpspec.exceptions import ImpedanceError
    try:
        with np.errstate(all="ignore"):
            return c.get_impedances(np.array([1e4, 1.0, 1e-2]))
    except (ImpedanceError, NotImplementedError):
        return None


def _labels(n, out):
    if n["t"] == "elem":
        out.append(chars(n["label"]))
        for sd in n["subs"]:
            if not sd["open"]:
                _labels(sd["con"], out)
    else:
        for x in n["items"]:
            _labels(x, out)
    return out


def _balanced(label: str) -> bool:
    depth = 0
    for ch in label:
        if ch == "{":
            depth += 1
        elif ch == "}":
            if depth == 0:
                return False
            depth -= 1
    return depth == 0


def judge_state(st, ctx):
    res, nt, case = _judge_state(st, ctx)
    labs = [lab for lab in _labels(st["tree"], []) if lab]
    why = ("label-with-unbalanced-brace" if not all(_balanced(lab) for lab in labs) else
           "label-starting-with-punctuation" if not all(lab[0].isalnum() or lab[0] == "_" for lab in labs) else None)
    if why:
        # specs/CDCRound.tla Representable(tree) is false: the syntax cannot carry the label
        res = [(k, why + ":" + sig.split(":")[0], c, d) if k == "violation" else (k, sig, c, d) for k, sig, c, d in res]
    return res, nt, case


def _judge_state(st, ctx):
    import numpy as np
    from pyimpspec import Circuit
    text = chars(st["text"])
    opts = st["opts"]
    want = sort_subs(model_tree(st["expect"]))
    case = {"text": text, "opts": tlaval.to_jsonable(opts)}
    res = []
    # (a) the spelling denotes the generator's circuit
    name, allowed, c, exc = parse_outcome(text)
    if name != "":
        q = _spelling_kind(opts)
        res.append(("violation", f"spelling-rejected:{name}:{q}", case, f"parse_cdc({text!r}) raised {name}: {exc}"))
        return res, 1, case
    got = norm_tree(sort_subs(real_tree(c)))
    if not trees_equal(want, got):
        res.append(("violation", f"spelling-denotes-other-circuit:{_spelling_kind(opts)}", case,
                    f"parse_cdc({text!r}) = {got}, the generator's circuit is {want}"))
        return res, 1, case
    # (b) once per tree: build through the API, serialise, parse back, re-serialise, deep copy
    if _is_canon(opts) and not opts["header"]:
        try:
            api = Circuit(build_real(st["tree"]))
        except Exception as e:  # noqa: BLE001
            raise MachineryError(f"cannot build the generator tree through the API: {type(e).__name__}: {e}") from e
        dec = opts["dec"]
        ser = api.serialize()
        if ser != chars(st["canon"]):
            res.append(("drift", "printer", case, f"serialize() = {ser!r}, printer model = {chars(st['canon'])!r}"))
        if dec <= 15 and api.to_string(dec) != text:      # beyond 15 decimals the binary value shows, the model prints exact decimals
            res.append(("drift", "printer", case, f"to_string({dec}) = {api.to_string(dec)!r}, printer model = {text!r}"))
        for d in sorted({dec, 12}):
            s1 = api.to_string(d)
            n2, _, c2, e2 = parse_outcome(s1)
            if n2 != "":
                res.append(("violation", f"serialisation-rejected:{n2}", dict(case, serialised=s1), f"to_string({d}) = {s1!r} is rejected: {e2}"))
                return res, 1, case
            if not trees_equal(want, norm_tree(sort_subs(real_tree(c2)))):
                res.append(("violation", "round-trip-changes-circuit", dict(case, serialised=s1),
                            f"parse_cdc(to_string({d})) = {sort_subs(real_tree(c2))} != {want}"))
                return res, 1, case
            if c2.to_string(d) != parse_outcome(c2.to_string(d))[2].to_string(d):
                res.append(("violation", "reserialisation-differs", dict(case, serialised=s1), f"second serialisation differs from {s1!r}"))
            try:
                dc = _copy.deepcopy(api)
                if dc.to_string(d) != s1:
                    res.append(("violation", "deepcopy-serialises-differently", dict(case, serialised=s1), f"{dc.to_string(d)!r} != {s1!r}"))
            except Exception as e:  # noqa: BLE001
                res.append(("violation", f"deepcopy-raises:{type(e).__name__}", dict(case, serialised=s1), str(e)))
        z1, z2 = _impedances(api), _impedances(c)
        if (z1 is None) != (z2 is None) or (z1 is not None and not np.allclose(z1, z2, rtol=1e-9, atol=0)):
            res.append(("violation", "impedance-differs", case, f"API-built {z1} vs parsed {z2}"))
    return res, 1, case


def _spelling_kind(o):
    devs = []
    if o["omit"]:
        devs.append("omitted-defaults")
    if o["lim"] != "full":
        devs.append(f"limits-{o['lim']}")
    if o["flow"]:
        devs.append("lowercase-f")
    if o["short"] != "short":
        devs.append("zero")
    if o["open"] != "open":
        devs.append("inf")
    if o["bare"]:
        devs.append("bare-list")
    if o["ws"] != "canon":
        devs.append(f"ws-{o['ws']}")
    if not o["outer"]:
        devs.append("implicit-series")
    if o["header"]:
        devs.append("header")
    return "+".join(devs) or "canonical"


def selftest() -> int:
    ensure_repo_on_path()
    res = run_tlc("CDCRound", cfg_text("shapes", 1, 1, "canon"), dump=True)
    sts = list(tlaval.iter_dump_states(res.dump_path))
    cleanup(res)
    st = next(s for s in sts if s["tree"]["items"])
    r1, _, _ = judge_state(st, None)
    bad = _copy.deepcopy(st)
    bad["expect"]["items"] = bad["expect"]["items"] + bad["expect"]["items"]
    r2, _, _ = judge_state(bad, None)
    ok = (not [r for r in r1 if r[0] == "violation"]) and bool([r for r in r2 if r[0] == "violation"])
    print("selftest C03:", "ok" if ok else "FAILED")
    return 0 if ok else 2


def replay(case) -> int:
    ensure_repo_on_path()
    text = case["case"]["text"]
    name, allowed, c, exc = parse_outcome(text)
    print(f"replay C03: parse_cdc({text!r}) -> {name or 'accepted'} {exc or ''}")
    if c is not None:
        print("   ", sort_subs(real_tree(c)))
    print("    recorded:", case["detail"])
    return 1 if name != "" else 0


def run(tier: str, seed: int) -> int:
    ensure_repo_on_path()
    v = Verdict("C03", tier, seed)
    if tier == "quick":
        plans = [("shapes", 3, 1, "single"), ("shapes", 2, 2, "layout"), ("params", 1, 0, "single"), ("q", 1, 0, "single"),
                 ("labels", 1, 1, "single"), ("subs", 1, 0, "single"), ("badlabels", 1, 0, "canon")]
    else:
        plans = [("shapes", 3, 3, "single"), ("shapes", 3, 2, "layout"), ("shapes", 2, 2, "product"),
                 ("params", 2, 0, "single"), ("params", 1, 0, "productlite"), ("q", 1, 1, "productlite"), ("labels", 2, 1, "productlite"),
                 ("subs", 2, 1, "single"), ("subs", 1, 0, "productlite"), ("params", 1, 1, "canon"), ("q", 1, 1, "canon"),
                 ("subs", 1, 1, "canon"), ("badlabels", 2, 1, "single")]
    for focus, leaves, depth, mode in plans:
        res = run_tlc("CDCRound", cfg_text(focus, leaves, depth, mode), dump=True, timeout=7200, heap="24g")
        try:
            v.add_tlc(f"focus={focus} leaves<={leaves} depth<={depth} spellings={mode}", res)
            if res.violated:
                v.model_violation(f"CDCRound:{focus}", res, "a spelling does not denote the generator's circuit in the parser model")
            else:
                replay_states(v, res.dump_path, judge_state)
        finally:
            cleanup(res)
    v.evaluations = v.replayed
    v.extra["rule"] = ("every (generator tree, spelling options) pair of specs/CDCRound.tla for each focus; the spelled text is parsed by "
                       "the real parse_cdc and compared with the generator's tree; canonical pairs are also built through the API, "
                       "serialised, re-parsed, deep-copied and re-serialised")
    v.assumptions += ["values are exactly printable decimals on per-parameter grids around the class defaults",
                      "classes R, C, L, Q, Tlm stand for the registry (one special leaf per tree)"]
    return v.finish()
