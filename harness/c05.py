"""C05 — DataSet keeps frequency, impedance and mask of each point together.

TLC enumerates every call history of specs/DataSet.tla up to the bound; each history is replayed
through the public API of the real pyimpspec.data.DataSet and the real object is compared with the
model state after every step.
"""
from __future__ import annotations

import copy
import json
import os

from . import tlaval
from .common import Verdict, parallel_map, ensure_repo_on_path
from .tlc import run_tlc, cleanup, MachineryError

UNIT = complex(1.0, -0.5)
SPEC_ACTIONS = ["Construct", "ConstructBad", "SetMask", "SetMaskBad", "LowPass", "HighPass",
                "SubtractScalar", "SubtractArray", "ToDict", "DropKey", "ToV1", "FromDict",
                "Duplicate", "Average", "Swap"]


GROUPS = {
    "all": set(SPEC_ACTIONS),
    # masks and filters against reordering and subtraction
    "mask": {"SetMask", "SetMaskBad", "LowPass", "HighPass", "SubtractArray", "Swap", "Duplicate"},
    # export / import / copies
    "dict": {"ToDict", "DropKey", "ToV1", "FromDict", "Duplicate", "Average", "Swap", "SubtractArray", "SubtractScalar", "SetMask"},
    # repeated imports of one exported dictionary (current and version-1 layout), one-point spectra
    "reimport": {"ToDict", "DropKey", "ToV1", "FromDict", "SetMask", "Swap"},
}


def cfg_text(n: int, max_hist: int, record: bool, group: str = "all", simple: bool = False) -> str:
    inv = "" if record else "INVARIANT TypeOK\nINVARIANT Descending\nINVARIANT Partition\nINVARIANT OrderInsensitive\n"
    en = ", ".join(f'"{a}"' for a in sorted(GROUPS[group]))
    return (f"SPECIFICATION Spec\nCONSTANTS\n    N = {n}\n    MaxHist = {max_hist}\n    MaxShift = 24\n"
            f"    Enabled = {{{en}}}\n    SimpleMasks = {'TRUE' if simple else 'FALSE'}\n"
            f"    Record = {'TRUE' if record else 'FALSE'}\n{inv}")


# ---------------------------------------------------------------------------
# implementation side
# ---------------------------------------------------------------------------

class OffGrid(Exception):
    pass


def f_of(p: int) -> float:
    return float(10 ** p)


def project(obj, derived=True):
    """Real DataSet -> [(id, masked, z)] in storage order; also evaluates the view clauses."""
    import numpy as np
    if obj is None:
        return []
    f = obj.get_frequencies(masked=None)
    Z = obj.get_impedances(masked=None)
    mask = obj.get_mask()
    n = len(f)
    if not (len(Z) == n and obj.get_num_points(masked=None) == n):
        raise OffGrid(f"full views disagree in length: {len(f)=} {len(Z)=} {obj.get_num_points(masked=None)=}")
    if sorted(mask.keys()) != list(range(n)):
        raise OffGrid(f"mask keys {sorted(mask.keys())} are not 0..{n-1}")
    pts = []
    for i in range(n):
        fi = float(f[i])
        p = None
        for cand in range(0, 12):
            if f_of(cand) == fi:
                p = cand
        if p is None:
            raise OffGrid(f"frequency {fi!r} is not a grid frequency")
        zi = complex(Z[i])
        z = zi.real
        if z != int(z) or zi != z * UNIT:
            raise OffGrid(f"impedance {zi!r} is not on the z grid")
        pts.append((p, bool(mask[i]), int(z)))
    # the three views (Partition / Integrity evaluated on the real object)
    for flag in (False, True):
        fv = [float(x) for x in obj.get_frequencies(masked=flag)]
        zv = [complex(x) for x in obj.get_impedances(masked=flag)]
        want_f = [float(f[i]) for i in range(n) if bool(mask[i]) == flag]
        want_z = [complex(Z[i]) for i in range(n) if bool(mask[i]) == flag]
        if fv != want_f or zv != want_z or obj.get_num_points(masked=flag) != len(want_f):
            raise OffGrid(f"view masked={flag} is not the {flag}-part of the full view: {fv} {zv}")
    if not derived:
        d = obj.to_dict()
        if [float(x) for x in d["frequencies"]] != [float(x) for x in f] or \
                {int(k): bool(v) for k, v in d["mask"].items()} != {int(k): bool(v) for k, v in mask.items()}:
            raise OffGrid("to_dict() disagrees with the getters")
        return pts
    # derived views (Nyquist / Bode / data frame) are functions of the unmasked view (checked at the last step of a behaviour)
    fz = [float(f[i]) for i in range(n) if not mask[i]]
    zz = np.array([complex(Z[i]) for i in range(n) if not mask[i]], dtype=complex)
    re_, im_ = obj.get_nyquist_data()
    bf, bm, bp = obj.get_bode_data()
    if len(zz) and not (np.array_equal(re_, zz.real) and np.array_equal(im_, -zz.imag) and [float(x) for x in bf] == fz
                        and np.array_equal(bm, abs(zz)) and np.array_equal(bp, -np.angle(zz, deg=True))
                        and np.array_equal(obj.get_magnitudes(), abs(zz)) and np.array_equal(obj.get_phases(), np.angle(zz, deg=True))):
        raise OffGrid("get_nyquist_data / get_bode_data / get_magnitudes / get_phases disagree with the unmasked view")
    df = obj.to_dataframe(negative_imaginary=True, negative_phase=True)
    if list(df.iloc[:, 0]) != fz or not np.array_equal(df.iloc[:, 2].to_numpy(), -zz.imag) or not np.array_equal(df.iloc[:, 1].to_numpy(), zz.real):
        raise OffGrid("to_dataframe() disagrees with the unmasked view")
    d = obj.to_dict()
    if [float(x) for x in d["frequencies"]] != [float(x) for x in f] or \
            [complex(a, b) for a, b in zip(d["real_impedances"], d["imaginary_impedances"])] != [complex(x) for x in Z] or \
            {int(k): bool(v) for k, v in d["mask"].items()} != {int(k): bool(v) for k, v in mask.items()}:
        raise OffGrid("to_dict() disagrees with the getters")
    return pts


def expected_pts(seq):
    return [(p["id"], p["m"], p["z"]) for p in seq]


class World:
    """The real objects a behaviour manipulates."""

    def __init__(self):
        self.cur = None
        self.oth = None
        self.expd = None
        self.cm_ok = True
        self.npflags = False     # mask flags spelled as numpy.bool_ (accepted by the API) instead of Python bool

    def apply(self, rec):
        """Perform one call; returns the exception (or None)."""
        import numpy as np
        from pyimpspec import DataSet
        a = rec["a"]
        self.cm_ok = True
        try:
            if a == "Construct":
                n, asc = rec["n"], rec["asc"]
                ids = list(range(1, n + 1)) if asc else list(range(n, 0, -1))
                mask = {int(i): True for i in rec["t"]}
                mask.update({int(i): False for i in rec["f"]})
                if self.npflags:
                    mask = {i: np.bool_(b) for i, b in mask.items()}
                before = dict(mask)
                new = DataSet(np.array([f_of(p) for p in ids]), np.array([64 * p * UNIT for p in ids]),
                              mask=mask, label="x")
                self.cm_ok = (mask == before)
                self.oth, self.cur = self.cur, new
            elif a == "ConstructBad":
                k = rec["kind"]
                f = np.array([100.0, 10.0])
                Z = np.array([128 * UNIT, 64 * UNIT])
                kw = {}
                if k == "shape":
                    Z = Z[:1]
                elif k == "empty":
                    f, Z = f[:0], Z[:0]
                elif k == "dupfreq":
                    f = np.array([10.0, 10.0])
                elif k == "maskkey":
                    kw["mask"] = {"0": True}
                elif k == "maskvalue":
                    kw["mask"] = {0: 1}
                elif k == "masktype":
                    kw["mask"] = [True, False]
                DataSet(f, Z, **kw)
            elif a == "SetMask":
                mask = {int(i): True for i in rec["t"]}
                mask.update({int(i): False for i in rec["f"]})
                if self.npflags:
                    mask = {i: np.bool_(b) for i, b in mask.items()}
                before = dict(mask)
                self.cur.set_mask(mask)
                self.cm_ok = (mask == before)
            elif a == "SetMaskBad":
                k = rec["kind"]
                self.cur.set_mask({"maskkey": {"0": True}, "maskvalue": {0: 1}, "masktype": [True]}[k])
            elif a == "LowPass":
                self.cur.low_pass(10.0 ** (rec["c"] / 2))
            elif a == "HighPass":
                self.cur.high_pass(10.0 ** (rec["c"] / 2))
            elif a == "SubtractScalar":
                self.cur.subtract_impedances(np.array([4 * UNIT] * self.cur.get_num_points(masked=None)))
            elif a == "SubtractArray":
                n = self.cur.get_num_points(masked=None)
                self.cur.subtract_impedances(np.array([4 * (k + 1) * UNIT for k in range(n)]))
            elif a == "ToDict":
                self.expd = self.cur.to_dict()
            elif a == "DropKey":
                self.expd.pop(rec["k"], None)
            elif a == "ToV1":
                d = self.expd
                for new, old in (("frequencies", "frequency"), ("real_impedances", "real"),
                                 ("imaginary_impedances", "imaginary")):
                    if new in d:
                        d[old] = d.pop(new)
                d["version"] = 1
            elif a == "FromDict":
                d = json.loads(json.dumps(self.expd)) if rec["json"] else self.expd
                new = DataSet.from_dict(d)
                self.oth, self.cur = self.cur, new
            elif a == "Duplicate":
                new = DataSet.duplicate(self.cur)
                self.oth, self.cur = self.cur, new
            elif a == "Average":
                new = DataSet.average([self.cur, self.oth])
                self.oth, self.cur = self.cur, new
            elif a == "Swap":
                self.cur, self.oth = self.oth, self.cur
            else:
                raise MachineryError(f"unknown action {a}")
        except MachineryError:
            raise
        except Exception as e:  # noqa: BLE001 - the exception is the observation
            return e
        return None


def _brief(rec):
    out = {}
    for k, v in rec.items():
        if k == "p":
            continue
        out[k] = sorted(v) if isinstance(v, frozenset) else v
    return out


def judge_history(hist):
    """Replay one history; return None or (kind, signature, step, detail).

    kind: 'violation' | 'drift'.  Only the first diverging step is reported.
    """
    w = World()
    # every other behaviour (chosen by its content, so reproducibly) hands over numpy.bool_ flags
    w.npflags = sum(len(r.get("t", ())) + 2 * len(r.get("f", ())) + len(r["a"]) for r in hist) % 2 == 1
    for k, rec in enumerate(hist):
        exc = w.apply(rec)
        a = rec["a"]
        want_r = rec["r"]
        if want_r == "ok":
            if exc is not None:
                extra = ""
                if a == "FromDict":
                    extra = ":json" if rec["json"] else ":same-dict"
                return ("violation", f"{a}{extra}:raises:{type(exc).__name__}", k,
                        f"model: succeeds; implementation raised {type(exc).__name__}: {exc}")
        else:
            if exc is None:
                return ("drift", f"{a}:{rec.get('kind', '')}:accepted", k,
                        f"model: refused with {want_r}; implementation accepted the call")
            if type(exc).__name__ != want_r:
                return ("drift", f"{a}:{rec.get('kind', '')}:{type(exc).__name__}", k,
                        f"model: {want_r}; implementation: {type(exc).__name__}: {exc}")
        if not w.cm_ok:
            return ("violation", f"{a}:caller-mask-altered", k, "the mask dictionary passed by the caller was modified")
        want_cur, want_oth = expected_pts(rec["p"][0]), expected_pts(rec["p"][1])
        for name, obj, want in (("addressed", w.cur, want_cur), ("other", w.oth, want_oth)):
            try:
                got = project(obj, derived=(k == len(hist) - 1))
            except OffGrid as e:
                return ("violation", f"{a}:{name}:views", k, str(e))
            except Exception as e:  # noqa: BLE001
                return ("violation", f"{a}:{name}:getter-raises:{type(e).__name__}", k, str(e))
            if got != want:
                q = ""
                if a == "Construct":
                    q = ":asc" if rec["asc"] else ":desc"
                what = "mask" if [(p, z) for p, _, z in got] == [(p, z) for p, _, z in want] else "points"
                return ("violation", f"{a}{q}:{name}:{what}", k, f"model {want} != implementation {got}")
    return None


def _replay_range(arg):
    path, start, end, max_hist = arg
    ensure_repo_on_path()
    n = 0
    out = []
    sample = []
    for st in tlaval.iter_dump_range(path, start, end):
        hist = st["hist"]
        if len(hist) != max_hist:
            continue
        n += 1
        if len(sample) < 2:
            sample.append([_brief(r) for r in hist])
        res = judge_history(hist)
        if res is not None:
            kind, sig, step, detail = res
            out.append((kind, sig, [tlaval.to_jsonable(r) for r in hist[:step + 1]], detail))
    return n, out, sample


def replay_dump(v: Verdict, path: str, max_hist: int, procs: int = 16):
    import multiprocessing as mp
    ranges = tlaval.dump_ranges(path, procs * 4)
    ctx = mp.get_context("fork")
    seen = set()
    with ctx.Pool(procs) as pool:
        for n, out, sample in pool.imap_unordered(_replay_range, [(path, s, e, max_hist) for s, e in ranges]):
            v.replayed += n
            for s in sample:
                v.sample(s)
            for kind, sig, prefix, detail in out:
                key = (kind, sig, json.dumps(prefix, sort_keys=True))
                if key in seen:
                    continue
                seen.add(key)
                case = {"spec": "DataSet", "hist": prefix}
                if kind == "violation":
                    v.report(sig, case, detail)
                else:
                    v.drift(sig, case, detail)


def replay(case) -> int:
    """./check C05 --replay <file>: re-execute a recorded behaviour against /repo."""
    ensure_repo_on_path()
    hist = tlaval.from_jsonable(case["case"]["hist"])
    res = judge_history(hist)
    if res is None:
        print("replay C05: the behaviour conforms to the model on this tree")
        return 0
    kind, sig, step, detail = res
    print(f"replay C05: {kind} at step {step} [{sig}]: {detail}")
    for r in hist[:step + 1]:
        print("   ", _brief(r))
    return 1 if kind == "violation" else 0


def selftest() -> int:
    """Demonstrate the binding: a corrupted expectation must be rejected."""
    ensure_repo_on_path()
    good = [{"a": "Construct", "n": 2, "asc": False, "t": frozenset({0}), "f": frozenset(), "r": "ok",
             "p": [[{"id": 2, "m": True, "z": 128}, {"id": 1, "m": False, "z": 64}], []]}]
    bad = copy.deepcopy(good)
    bad[0]["p"][0][0]["m"] = False
    ok = judge_history(good) is None and judge_history(bad) is not None
    print("selftest C05:", "ok" if ok else "FAILED")
    return 0 if ok else 2


def run(tier: str, seed: int) -> int:
    ensure_repo_on_path()
    v = Verdict("C05", tier, seed)
    # 1. the model's own invariants, without the history variable
    mc_n, mc_h = (3, 3) if tier == "quick" else (3, 5)
    res = run_tlc("DataSet", cfg_text(mc_n, mc_h, False), coverage=True, timeout=3600)
    v.add_tlc(f"invariants N={mc_n} MaxHist={mc_h}", res)
    if res.violated:
        v.model_violation("DataSet", res, "the DataSet model violates its own invariant")
    from .tlc import require_coverage
    require_coverage(res, [a for a in SPEC_ACTIONS])
    # 2. every history, replayed into the implementation
    #    (N, MaxHist, action group, simple masks)
    if tier == "quick":
        plans = [(2, 3, "all", True), (2, 2, "all", False), (2, 3, "mask", True), (2, 4, "dict", True), (1, 5, "reimport", True)]
    else:
        plans = [(2, 3, "all", False), (3, 3, "all", True), (3, 3, "mask", True), (2, 4, "mask", True),
                 (2, 5, "dict", True), (3, 4, "dict", True), (1, 6, "reimport", True)]
    for n, h, group, simple in plans:
        res = run_tlc("DataSet", cfg_text(n, h, True, group, simple), dump=True, timeout=3600)
        try:
            v.add_tlc(f"histories N={n} MaxHist={h} actions={group} simple_masks={simple}", res)
            if res.dump_path is None:
                raise MachineryError("TLC wrote no dump")
            replay_dump(v, res.dump_path, h)
        finally:
            cleanup(res)
    v.nontrivial = v.replayed
    v.extra["rule"] = ("every behaviour of specs/DataSet.tla with exactly MaxHist calls (all shorter ones are prefixes); "
                       "each is a distinct call sequence; replayed through pyimpspec.DataSet and compared with the "
                       "model state after every call")
    v.assumptions += ["point identity is carried by f = 10^id and Z = z(1-0.5j); other magnitudes are not explored",
                      "bounded: N points and MaxHist calls as listed in tlc_runs"]
    return v.finish()
