"""C19 — the command-line interface reports what the API computes (specs/Cli.tla).

TLC enumerates the configurations of each command and, for `parse` and the mock-data specifiers,
the expected outcome (which points are printed; where a specifier is split).  Every configuration is
run in-process through pyimpspec.cli.main() with a patched argv; printed tables are parsed back and
compared with the model (point ids) or with the API call the configuration denotes (numbers).
"""
from __future__ import annotations

import contextlib
import io
import json
import os
import random
import re
import shutil
import sys
import warnings

from . import tlaval
from .common import Verdict, ensure_repo_on_path, parallel_map
from .tlc import run_tlc, cleanup, MachineryError, scratch_dir

N = 3


def cfg_text(mode):
    return (f'SPECIFICATION Spec\nCONSTANTS\n    N = {N}\n    Mode = "{mode}"\nINVARIANT ParseSound\nINVARIANT ParseDescending\n'
            "INVARIANT SpecifierSplits\n")


def run_cli(argv, cwd=None):
    """-> (stdout text, exception or None)"""
    from pyimpspec.cli import main as cli_main
    buf = io.StringIO()
    old_argv, old_cwd = sys.argv, os.getcwd()
    exc = None
    try:
        sys.argv = ["pyimpspec"] + [str(a) for a in argv]
        if cwd:
            os.chdir(cwd)
        with contextlib.redirect_stdout(buf), contextlib.redirect_stderr(io.StringIO()):
            with warnings.catch_warnings():
                warnings.simplefilter("ignore")
                try:
                    cli_main()
                except SystemExit as e:
                    if e.code not in (0, None):
                        exc = e
                except Exception as e:  # noqa: BLE001
                    exc = e
    finally:
        sys.argv = old_argv
        os.chdir(old_cwd)
        try:
            import matplotlib.pyplot as plt
            plt.close("all")
        except Exception:  # noqa: BLE001
            pass
    return buf.getvalue(), exc


def table_rows(text, fmt):
    """Printed data table -> list of (f, re, im)."""
    if fmt == "json":
        start = text.find("{")
        d = json.loads(text[start:text.rfind("}") + 1])
        cols = list(d.keys())
        n = len(d[cols[0]])
        return [(float(d[cols[0]][str(i)]), float(d[cols[1]][str(i)]), float(d[cols[2]][str(i)])) for i in range(n)]
    rows = []
    for ln in text.splitlines():
        if fmt == "md":
            if not ln.startswith("|") or set(ln) <= set("|:- "):
                continue
            cells = [c.strip() for c in ln.strip("|").split("|")]
        else:
            cells = ln.split(",")
        try:
            vals = [float(c) for c in cells]
        except ValueError:
            continue
        if len(vals) >= 3:
            rows.append(tuple(vals[:3]))
    return rows


UNIT = complex(1.0, -0.5)
_WORK = None


def work():
    """One directory per check run: created in the main process, inherited by the forked workers."""
    global _WORK
    if _WORK is None:
        _WORK = os.environ.get("C19_WORKDIR") or scratch_dir("c19")
        os.environ["C19_WORKDIR"] = _WORK
    os.makedirs(_WORK, exist_ok=True)
    # hermetic: the CLI reads its defaults from $XDG_CONFIG_HOME/pyimpspec/config.json, which other programs
    # (e.g. the repository's own CLI tests) rewrite; an empty directory means "built-in defaults"
    os.environ["XDG_CONFIG_HOME"] = os.path.join(_WORK, "xdg")
    os.makedirs(os.environ["XDG_CONFIG_HOME"], exist_ok=True)
    return _WORK


def judge_chunk(chunk):
    ensure_repo_on_path()
    work()
    out = []
    for cfg in chunk:
        r = judge_one(cfg)
        if r[0] and cfg[0]["cmd"] in ("fit", "drt"):
            r = judge_one(cfg)          # numbers of an optimiser: only a difference that shows twice is reported
        out.append(r)
    return out


def judge_one(item):
    import numpy as np
    cfg, expect = item
    cmd = cfg["cmd"]
    res = []
    d = work()
    pid = os.getpid()
    if cmd == "parse":
        ids = list(range(1, N + 1)) if cfg["order"] == "asc" else list(range(N, 0, -1))
        path = os.path.join(d, f"in{pid}.csv")
        with open(path, "w") as fh:
            fh.write("f,re,im\n" + "".join(f"{float(10 ** p)!r},{float(64 * p)!r},{float(-32 * p)!r}\n" for p in ids))
        argv = ["parse", path, "--output-format", cfg["fmt"], "--output-significant-digits", "12"]
        if cfg["lpf"] > 0:
            argv += ["--low-pass-filter", repr(10.0 ** (cfg["lpf"] / 2))]
        if cfg["hpf"] > 0:
            argv += ["--high-pass-filter", repr(10.0 ** (cfg["hpf"] / 2))]
        if cfg["excl"]:
            argv += ["--exclude-indices"] + [str(i) for i in sorted(cfg["excl"])]
        text, exc = run_cli(argv)
        case = {"argv": argv[2:], "order": cfg["order"]}
        if expect["err"]:
            if exc is None:
                res.append(("violation", "parse:prints-although-every-point-is-filtered", case, f"parse {argv[2:]}: expected a refusal, printed {text[:100]!r}"))
        elif exc is not None:
            res.append(("violation", f"parse:raises:{type(exc).__name__}", case, f"parse {argv[2:]} raised {type(exc).__name__}: {str(exc)[:150]}"))
        else:
            rows = table_rows(text, cfg["fmt"])
            got = []
            for f, re_, im_ in rows:
                p = [q for q in range(1, N + 1) if abs(f - 10 ** q) <= 1e-9 * 10 ** q]
                ok = p and abs(re_ - 64 * p[0]) <= 1e-9 * 64 * p[0] and abs(im_ + 32 * p[0]) <= 1e-9 * 32 * p[0]
                got.append(p[0] if ok else -1)
            if got != list(expect["ids"]):
                res.append(("violation", "parse:printed-points", case, f"parse {argv[2:]} ({cfg['order']} input) printed points {got}, the API calls give {list(expect['ids'])}"))
        return res, case
    if cmd == "spec":
        from pyimpspec import generate_mock_data
        ident, kw = cfg["ident"], list(cfg["kw"])
        spec = "<" + ident + ((":" + ",".join(kw)) if kw else "") + ">"
        types = {"noise": float, "num_per_decade": int, "log_max_f": float, "log_min_f": float, "seed": int, "drift": float}
        kwargs = {k: types[k](v) for k, v in (x.split("=") for x in kw)}
        text, exc = run_cli(["parse", spec, "--output-format", "csv"])
        case = {"specifier": spec}
        try:
            want = generate_mock_data(ident, **kwargs)
        except Exception as e:  # noqa: BLE001
            want = e
        if isinstance(want, Exception):
            if exc is None:
                res.append(("drift", "spec:api-refuses-cli-accepts", case, f"{spec}: generate_mock_data raised {type(want).__name__}, the CLI printed a table"))
            return res, case
        if exc is not None:
            res.append(("violation", f"spec:raises:{type(exc).__name__}", case, f"parse {spec} raised {type(exc).__name__}: {str(exc)[:150]}; generate_mock_data({ident!r}, **{kwargs}) works"))
            return res, case
        rows = table_rows(text, "csv")
        flat = [(float(f), complex(z)) for dset in want for f, z in zip(dset.get_frequencies(), dset.get_impedances())]
        if len(rows) != len(flat) or any(abs(r[0] - w[0]) > 1e-9 * abs(w[0]) or abs(complex(r[1], r[2]) - w[1]) > 1e-9 * abs(w[1]) for r, w in zip(rows, flat)):
            res.append(("violation", "spec:different-data", case, f"parse {spec} printed {len(rows)} rows that differ from generate_mock_data({ident!r}, **{kwargs}) ({len(flat)} points)"))
        return res, case
    if cmd == "simulate":
        from pyimpspec import parse_cdc, simulate_spectrum
        from pyimpspec.analysis.utility import _interpolate
        fmin, fmax = float(cfg["fmin"]), float(cfg["fmin"]) * 10 ** cfg["decades"]
        name = f"sim{pid}"
        argv = ["circuit", cfg["cdc"], "--simulate", "-f", repr(fmin), "-F", repr(fmax), "-npd", str(cfg["npd"]), "--output-format", cfg["fmt"],
                "--output-to", "--output-dir", d, "--output-name", name]
        text, exc = run_cli(argv)
        case = {"argv": argv}
        if exc is not None:
            res.append(("violation", f"simulate:raises:{type(exc).__name__}", case, f"{argv[:8]} raised {type(exc).__name__}: {str(exc)[:150]}"))
            return res, case
        with open(os.path.join(d, f"{name}.{cfg['fmt']}")) as fh:
            rows = table_rows(fh.read(), cfg["fmt"])
        want = simulate_spectrum(parse_cdc(cfg["cdc"]), np.array(_interpolate([fmax, fmin], cfg["npd"])))
        flat = list(zip(want.get_frequencies(), want.get_impedances()))
        n_expected = cfg["decades"] * cfg["npd"] + 1
        if len(rows) != n_expected or len(flat) != n_expected or \
                any(abs(r[0] - w[0]) > 1e-9 * abs(w[0]) or abs(complex(r[1], r[2]) - w[1]) > 1e-9 * abs(w[1]) for r, w in zip(rows, flat)):
            res.append(("violation", "simulate:different-spectrum", case, f"{argv[:8]}: {len(rows)} rows written, simulate_spectrum gives {len(flat)} points (expected {n_expected})"))
        return res, case
    if cmd == "fit":
        from pyimpspec import parse_cdc, fit_circuit, generate_mock_data
        spec = "<CIRCUIT_1:noise=5e-2,seed=42,num_per_decade=4>"
        argv = ["fit", cfg["cdc"], spec, "--method", cfg["method"], "--weight", cfg["weight"], "--max-nfev", str(cfg["nfev"]), "--num-procs", "1",
                "--output-format", cfg["fmt"], "--suppress-progress"]
        text, exc = run_cli(argv)
        case = {"argv": argv}
        data = generate_mock_data("CIRCUIT_1", noise=5e-2, seed=42, num_per_decade=4)[0]
        try:
            with warnings.catch_warnings():
                warnings.simplefilter("ignore")
                fit = fit_circuit(parse_cdc(cfg["cdc"]), data, method=cfg["method"], weight=cfg["weight"], max_nfev=cfg["nfev"], num_procs=1)
        except Exception as e:  # noqa: BLE001
            if exc is None:
                res.append(("violation", "fit:cli-succeeds-api-fails", case, f"fit_circuit raised {type(e).__name__} but the CLI printed a report"))
            return res, case
        if exc is not None:
            res.append(("violation", f"fit:raises:{type(exc).__name__}", case, f"{argv[:9]} raised {type(exc).__name__}: {str(exc)[:150]}"))
            return res, case
        args_like = type("A", (), {"output_format": cfg["fmt"], "output_indices": False, "output_significant_digits": 6})()
        from pyimpspec.cli.utility import format_text
        for part, df in (("parameters", fit.to_parameters_dataframe()), ("statistics", fit.to_statistics_dataframe())):
            want = format_text(df, args_like).strip()
            if want not in text:
                res.append(("violation", f"fit:{part}-differ", case, f"{argv[:9]}: the printed {part} table is not the one of fit_circuit with the same settings"))
                break
        return res, case
    if cmd == "drt":
        from pyimpspec import calculate_drt, generate_mock_data
        spec = "<CIRCUIT_1:noise=5e-2,seed=42,num_per_decade=4>"
        argv = ["drt", spec, "--method", cfg["method"], "--output-format", "csv", "--suppress-progress", "--num-procs", "1"]
        if cfg["method"] == "tr-nnls":
            argv += ["--mode", cfg["mode"], "--lambda-value", "1e-3"]
        text, exc = run_cli(argv)
        case = {"argv": argv}
        data = generate_mock_data("CIRCUIT_1", noise=5e-2, seed=42, num_per_decade=4)[0]
        with warnings.catch_warnings():
            warnings.simplefilter("ignore")
            kw = dict(mode=cfg["mode"], lambda_value=1e-3) if cfg["method"] == "tr-nnls" else dict(num_procs=1)
            try:
                drt = calculate_drt(data, method=cfg["method"], **kw)
            except Exception as e:  # noqa: BLE001
                drt = e
        if isinstance(drt, Exception) or exc is not None:
            if (exc is None) != (not isinstance(drt, Exception)):
                res.append(("violation", "drt:cli-and-api-disagree-on-success", case, f"CLI: {exc!r}; API: {drt!r}"))
            return res, case
        from pyimpspec.cli.utility import format_text
        args_like = type("A", (), {"output_format": "csv", "output_indices": False, "output_significant_digits": 6})()
        want = format_text(drt.to_statistics_dataframe(), args_like).strip()
        if want not in text:
            res.append(("drift", "drt:statistics-differ", case, f"{argv}: printed statistics differ from calculate_drt(...).to_statistics_dataframe()"))
        return res, case
    raise MachineryError(cmd)


def selftest() -> int:
    ensure_repo_on_path()
    cfg = {"cmd": "parse", "lpf": 5, "hpf": 0, "excl": frozenset({2}), "fmt": "csv", "order": "asc"}
    r1, _ = judge_one((cfg, {"err": "", "ids": [2]}))
    r2, _ = judge_one((cfg, {"err": "", "ids": [2, 1]}))
    shutil.rmtree(work(), ignore_errors=True)
    ok = not r1 and bool(r2)
    print("selftest C19:", "ok" if ok else f"FAILED {r1} {r2}")
    return 0 if ok else 2


def replay(case) -> int:
    print("replay C19:", case.get("detail"))
    return 1


def run(tier: str, seed: int) -> int:
    ensure_repo_on_path()
    v = Verdict("C19", tier, seed)
    work()                # before any worker is forked
    rng = random.Random(seed)
    try:
        for mode in ("parse", "spec", "simulate", "fit", "drt"):
            res = run_tlc("Cli", cfg_text(mode), dump=True)
            try:
                v.add_tlc(f"configurations of '{mode}'", res)
                if res.violated:
                    v.model_violation(f"Cli:{mode}", res, "the CLI model violates its invariant")
                    continue
                items = [(dict(st["cfg"]), {"err": st["expect"]["err"], "ids": list(st["expect"]["ids"])}) for st in tlaval.iter_dump_states(res.dump_path)]
            finally:
                cleanup(res)
            items.sort(key=lambda it: json.dumps(tlaval.to_jsonable(it[0]), sort_keys=True))
            if tier == "quick":
                k = {"parse": 1500, "spec": 72, "simulate": 40, "fit": 12, "drt": 4}[mode]
                items = rng.sample(items, min(k, len(items)))
            elif mode == "fit":
                items = rng.sample(items, 36)
            for res_list, case in parallel_map(judge_chunk, items, procs=14, chunk=8):
                v.replayed += 1
                v.sample(tlaval.to_jsonable(case), limit=5)
                for kind, sig, c, detail in res_list:
                    (v.report if kind == "violation" else v.drift)(sig, tlaval.to_jsonable(c), detail)
    finally:
        if _WORK:
            shutil.rmtree(_WORK, ignore_errors=True)
        os.environ.pop("C19_WORKDIR", None)
    v.nontrivial = v.replayed
    v.evaluations = v.replayed
    v.extra["rule"] = ("configurations = states of specs/Cli.tla per command; each is run through pyimpspec.cli.main() in-process; `parse` output is "
                       "compared with the model's visible point ids, specifiers / simulate / fit / drt with the API call the configuration denotes")
    v.assumptions += ["fit / drt: only the flag subsets listed in Cli.tla; the comparison is textual equality of the API's own table with the printed report"]
    return v.finish()
