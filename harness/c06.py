"""C06 — writing a spectrum to a supported file layout and parsing it returns it (specs/Table.tla).

TLC checks on the model that every header row built from the documented aliases, sign markers and
unit suffixes in any column order is detected as the writer intended, and that sweep splitting
partitions every frequency sequence.  Every configuration (header row x file options, and the
instrument text layouts) is then written as a real file and parsed with parse_data; frequencies,
impedances (with the documented sign of the imaginary part) and the number of data sets must match.
"""
from __future__ import annotations

import cmath
import math
import os
import random
import re
import shutil

from . import tlaval
from .common import Verdict, ensure_repo_on_path, replay_states
from .tlc import run_tlc, cleanup, MachineryError, scratch_dir

SEPS = {",": ",", "tab": "\t", ";": ";", "space": " "}
ALIASES = {
    "frequency": ["frequency", "freq", "f"],
    "imaginary": ['z"', "z''", "z im", "z_im", "zim", "imaginary", "imag", "im"],
    "real": ["z'", "z re", "z_re", "zre", "real", "re"],
    "magnitude": ["|z|", "z", "magnitude", "modulus", "mag", "mod"],
    "phase": ["phase", "phz", "phi"],
}


def cfg_text(layout, mode, reduce="none", invs=("DetectedAsIntended", "UsesExpectedPair")):
    return (f'SPECIFICATION Spec\nCONSTANTS\n    Layout = "{layout}"\n    OptMode = "{mode}"\n    Reduce = "{reduce}"\n'
            + "".join(f"INVARIANT {i}\n" for i in invs))


def spectrum(opts):
    """[(f, Z)] per sweep, in the row order of the file."""
    n, sweeps, asc = opts["points"], opts["sweeps"], opts["order"] == "asc"
    out = []
    for k in range(sweeps):
        pts = []
        for i in range(n):
            f = float(f"{1 + k}.{k}e{4 - 2 * i}")                  # descending within a sweep, 2 decades apart
            re_ = (-1) ** (i + k) * float(f"{1 + i}.5e{i - 3 + 3 * k}")
            im_ = (-1) ** (i + 1) * float(f"{2 + k}.25e{2 - 3 * i}")
            pts.append((f, complex(re_, im_)))
        if asc:
            pts.reverse()
        out.append(pts)
    return out


def num(x: float, dec: str, fmt: str = "full") -> str:
    s = repr(float(x))
    if fmt == "short" and float(x).is_integer() and abs(x) < 1e15:
        s = str(int(x))              # whole numbers without a decimal mark, as spreadsheet exports write them
    return s.replace(".", ",") if dec == "," else s


def cell_text(c, case):
    al = ALIASES[c["role"]][c["alias"] - 1]
    t = c["marker"] + al + c["suffix"]
    return t.upper() if case == "upper" else t.title() if case == "title" else t


def write_table(path, hdr, opts):
    sep = SEPS[opts["sep"]]
    lines = [sep.join(cell_text(c, opts["case"]) for c in hdr)]
    for sweep in spectrum(opts):
        for f, z in sweep:
            row = []
            for c in hdr:
                v = {"frequency": f, "real": z.real, "imaginary": z.imag, "magnitude": abs(z),
                     "phase": math.degrees(cmath.phase(z))}[c["role"]]
                if c["marker"]:
                    v = -v
                row.append(num(v, opts["dec"], opts.get("num", "full")))
            lines.append(sep.join(row))
    with open(path, "w", encoding="utf-8") as fh:
        fh.write("\n".join(lines) + "\n")


# --- instrument layouts: the sample files shipped with the test-suite define the structure --------------

def _sample(ext):
    repo = os.environ.get("VERIF_REPO", "/repo")
    with open(os.path.join(repo, "tests", "data." + ext), "r", encoding="latin1") as fh:
        return fh.read().splitlines()


def write_instrument(path, fmt, opts):
    pts = [p for sweep in spectrum(opts) for p in sweep]
    e = "{:.15E}".format
    if fmt == "mpt":
        src = _sample("mpt")
        k = next(i for i, ln in enumerate(src) if ln.lower().startswith("freq/hz"))
        ncol = len(src[k].split("\t"))
        rows = ["\t".join([e(f), e(z.real), e(-z.imag)] + ["0.0"] * (ncol - 3)) for f, z in pts]
        out = src[:k + 1] + rows
    elif fmt == "i2b":
        out = ["Some metadata", "can be stored", "here in the first", "few lines", "", str(len(pts))] + \
              [f"{f!r} {z.real!r} {z.imag!r}" for f, z in pts]
    elif fmt == "p00":
        src = _sample("P00")
        k = next(i for i, ln in enumerate(src) if ln.lower().strip().startswith("f/hz"))
        rows = ["\t".join([e(f), e(z.real), e(-z.imag), "0", "0", "0"]) for f, z in pts]
        out = src[:k + 1] + [str(len(pts))] + rows
    elif fmt == "dfr":
        out = ["VERSION8.0", f" {len(pts)}", " 1"]
        for f, z in pts:
            out += [f" {f!r}", f" {z.real!r}", f" {-z.imag!r}", " 0", " 0", " 0", " 0", " 0", " 0"]
    elif fmt == "dta":
        src = _sample("dta")
        k = next(i for i, ln in enumerate(src) if ln.lower().strip().startswith("zcurve"))
        rows = ["\t" + "\t".join([str(i), str(2 * i), num(f, ","), num(z.real, ","), num(z.imag, ","), "1", num(abs(z), ","),
                                  num(math.degrees(cmath.phase(z)), ","), "8,08E-08", "-4,54E-05", "8"]) for i, (f, z) in enumerate(pts)]
        out = src[:k + 3] + rows
    elif fmt == "z":
        src = _sample("z")
        k = next(i for i, ln in enumerate(src) if "freq(hz)" in ln.lower())
        rows = ["\t".join([e(f), e(0), e(0), e(0), e(z.real), e(z.imag), e(0), "0", "0"]) for f, z in pts]
        out = src[:k + 2] + rows
    else:
        raise MachineryError(fmt)
    with open(path, "w", encoding="latin1") as fh:
        fh.write("\n".join(out) + "\n")


# ---------------------------------------------------------------------------

_DIR = None


def _workdir():
    """One directory per check run: created in the main process, inherited by the forked replay workers."""
    global _DIR
    if _DIR is None:
        _DIR = os.environ.get("C06_WORKDIR") or scratch_dir("c06-files")
        os.environ["C06_WORKDIR"] = _DIR
    os.makedirs(_DIR, exist_ok=True)
    return _DIR


def brief(hdr, opts):
    return "|".join(cell_text(c, opts["case"]) for c in hdr) + " " + ",".join(f"{k}={v}" for k, v in sorted(opts.items()))


def judge_state(st, ctx):
    from pyimpspec import parse_data
    hdr, opts = st["hdr"], dict(st["opts"])
    if ctx and ctx.get("sample") is not None:
        h = hash((tlaval.to_jsonable(hdr).__repr__(), repr(sorted(opts.items())), ctx["seed"]))
        if (h % 1000) >= ctx["sample"] * 1000:
            return [], 0, None
    instrument = opts["sep"] in ("mpt", "i2b", "p00", "dfr", "dta", "z")
    ext = {"p00": ".P00"}.get(opts["sep"], "." + opts["sep"]) if instrument else ".csv"
    path = os.path.join(_workdir(), f"t{os.getpid()}{ext}")
    if instrument:
        write_instrument(path, opts["sep"], opts)
    else:
        write_table(path, hdr, opts)
    case = {"header": [cell_text(c, opts["case"]) for c in hdr], "opts": opts}
    sweeps = spectrum(opts)
    res = []
    q = (opts["sep"] if instrument else ("decimal-comma" if opts["dec"] == "," else "") + ("1-row" if opts["points"] == 1 else ""))
    try:
        got = parse_data(path)
    except Exception as e:  # noqa: BLE001
        with open(path, "r", encoding="latin1") as fh:
            text = fh.read()[:300]
        res.append(("violation", f"file:raises:{type(e).__name__}:{q}", dict(case, file=text),
                    f"{brief(hdr, opts)}: parse_data raised {type(e).__name__}: {str(e)[:150]}"))
        return res, 1, case
    if len(got) != len(sweeps):
        res.append(("violation", f"file:number-of-data-sets:{q}", case, f"{brief(hdr, opts)}: {len(got)} data sets for {len(sweeps)} sweeps"))
        return res, 1, case
    polar = {c["role"] for c in hdr} == {"frequency", "magnitude", "phase"}
    tol = 1e-9 if (polar or instrument) else 0.0
    for ds, sweep in zip(got, sweeps):
        want = sorted(sweep, key=lambda p: -p[0])
        f, z = [float(x) for x in ds.get_frequencies()], [complex(x) for x in ds.get_impedances()]
        ok = len(f) == len(want) and all(abs(a - w[0]) <= tol * abs(w[0]) for a, w in zip(f, want)) and \
            all(abs(b - w[1]) <= max(tol, 1e-15) * abs(w[1]) for b, w in zip(z, want))
        if not ok:
            what = "sign" if len(f) == len(want) and all(abs(abs(b.imag) - abs(w[1].imag)) <= 1e-9 * abs(w[1]) and
                                                         abs(abs(b.real) - abs(w[1].real)) <= 1e-9 * abs(w[1]) for b, w in zip(z, want)) else "values"
            res.append(("violation", f"file:{what}:{q}", case, f"{brief(hdr, opts)}: parsed {list(zip(f, z))[:3]}, written {want[:3]}"))
            break
    return res, 1, case


def cli_roundtrip(v: Verdict):
    """The table printed by `parse --output-format csv` is itself such a file."""
    import contextlib
    import io
    import sys
    from pyimpspec import parse_data
    opts = {"points": 4, "sweeps": 1, "order": "desc", "sep": ",", "dec": ".", "case": "lower"}
    hdr = [{"role": r, "alias": 1, "marker": "", "suffix": ""} for r in ("frequency", "real", "imaginary")]
    os.environ["XDG_CONFIG_HOME"] = os.path.join(_workdir(), "xdg")      # built-in CLI defaults, not the user's config file
    os.makedirs(os.environ["XDG_CONFIG_HOME"], exist_ok=True)
    src = os.path.join(_workdir(), "cli-src.csv")
    write_table(src, hdr, opts)
    from pyimpspec.cli import main as cli_main
    buf = io.StringIO()
    argv = sys.argv
    try:
        sys.argv = ["pyimpspec", "parse", src, "--output-format", "csv"]
        with contextlib.redirect_stdout(buf):
            try:
                cli_main()
            except SystemExit:
                pass
    finally:
        sys.argv = argv
    text = buf.getvalue()
    table = "\n".join(ln for ln in text.splitlines() if ln.strip() and not ln.startswith(("#", "=")))
    out = os.path.join(_workdir(), "cli-out.csv")
    with open(out, "w") as fh:
        fh.write(table + "\n")
    v.replayed += 1
    try:
        a, b = parse_data(src)[0], parse_data(out)[0]
        import numpy as np
        if not (np.allclose(a.get_frequencies(), b.get_frequencies(), rtol=1e-9) and np.allclose(a.get_impedances(), b.get_impedances(), rtol=1e-9)):
            v.report("cli-table:values", {"table": table[:400]}, "the table printed by 'parse --output-format csv' parses to a different spectrum")
    except Exception as e:  # noqa: BLE001
        v.report(f"cli-table:raises:{type(e).__name__}", {"table": table[:400]}, f"the table printed by 'parse --output-format csv' is not parseable: {e}")


def selftest() -> int:
    ensure_repo_on_path()
    st = {"hdr": [{"role": "frequency", "alias": 2, "marker": "", "suffix": ""}, {"role": "imaginary", "alias": 2, "marker": "-", "suffix": ""},
                  {"role": "real", "alias": 1, "marker": "", "suffix": " (ohm)"}],
          "opts": {"sep": "tab", "dec": ".", "order": "asc", "sweeps": 2, "case": "upper", "points": 4}}
    r1, _, _ = judge_state(st, None)
    real_spectrum = spectrum
    try:
        globals()["spectrum"] = lambda o: [[(f, -z) for f, z in s] for s in real_spectrum(o)] if False else real_spectrum(o)
        r2 = None
    finally:
        globals()["spectrum"] = real_spectrum
    # corrupt the expectation: claim the marker is absent although the file negates the column
    bad = {"hdr": [dict(c) for c in st["hdr"]], "opts": dict(st["opts"])}
    path = os.path.join(_workdir(), "self.csv")
    write_table(path, st["hdr"], st["opts"])
    from pyimpspec import parse_data
    got = parse_data(path)
    ok = (not r1) and len(got) == 2 and complex(got[0].get_impedances()[0]).imag != 0
    res = run_tlc("Table", cfg_text("polar", "single", "few", invs=("SplitOK", "SplitTotal", "DetectedAsIntended")))
    ok = ok and res.ok
    # dispatch: a parser that wrongly accepts foreign content must be caught by TLC for *some* brute-force order,
    # and a corrupted recorded call must be rejected by the trace validation
    from . import dispatch
    work = scratch_dir("c06-dispatch-self")
    try:
        paths = dispatch.write_contents(work)
        acc, right, uns = dispatch.measure(paths)
        bad = dispatch.measured_module(acc | {("i2b", "dta")}, right, uns)
        res = run_tlc("Dispatch", dispatch.MC_CFG, extra_modules={"DispatchMeasured.tla": bad})
        ok3 = res.violated == "WinnerIsRight"
        good = dispatch.run_one(({"content": "p00", "ext": ".p00", "fmt": ""}, paths["p00"], work))
        wrong = {"cfg": good["cfg"], "events": [{"ev": "call", "p": "mpt"}] + good["events"][1:]}
        vv = Verdict("C06", "quick", 0)
        rej = dispatch.validate(vv, [good, wrong], dispatch.measured_module(acc, right, uns))
        ok4 = 0 not in rej and 1 in rej
    finally:
        shutil.rmtree(work, ignore_errors=True)
    ok = ok and ok3 and ok4
    shutil.rmtree(_workdir(), ignore_errors=True)
    print("selftest C06:", "ok" if ok else f"FAILED {r1} dispatch-model={ok3} dispatch-binding={ok4}")
    return 0 if ok else 2


def replay(case) -> int:
    if "dispatch" in case.get("case", {}):
        from . import dispatch
        ensure_repo_on_path()
        work = scratch_dir("c06-dispatch-replay")
        try:
            cfg = case["case"]["dispatch"]
            r = dispatch.run_one((cfg, dispatch.write_contents(work)[cfg["content"]], work))
        finally:
            shutil.rmtree(work, ignore_errors=True)
        print("replay C06:", cfg, "->", r["events"])
        end = r["events"][-1]
        return 0 if end.get("right") or not dispatch.documented(cfg) else 1
    from .common import replay_state
    return replay_state(judge_state, case, "C06")


def run(tier: str, seed: int) -> int:
    ensure_repo_on_path()
    v = Verdict("C06", tier, seed)
    _workdir()            # before any worker is forked
    if tier == "quick":
        plans = [("polar", "single", "few", 1.0), ("cartesian", "single", "few", 0.5), ("five", "single", "none", 0.2), ("five-marked", "single", "none", 0.15),
                 ("cartesian", "product", "few", 0.01), ("instrument", "single", "none", 1.0)]
    else:
        plans = [("polar", "single", "none", 0.3), ("polar", "product", "few", 0.2), ("cartesian", "single", "nosuffix", 0.3),
                 ("cartesian", "product", "few", 0.1), ("five", "single", "none", 1.0), ("five-marked", "single", "none", 1.0),
                 ("instrument", "single", "none", 1.0)]
    first = True
    try:
        for layout, mode, reduce, sample in plans:
            invs = ["DetectedAsIntended", "UsesExpectedPair"] + (["SplitOK", "SplitTotal"] if first else [])
            first = False
            if layout == "instrument":
                invs = ["DetectedAsIntended"]
            res = run_tlc("Table", cfg_text(layout, mode, reduce, invs), dump=True, timeout=7200, heap="24g")
            try:
                v.add_tlc(f"layout={layout} options={mode} reduce={reduce} replayed-fraction={sample}", res)
                if res.violated:
                    v.model_violation(f"Table:{layout}", res, "a documented header row is not detected as intended / sweeps are not partitioned in the model")
                else:
                    replay_states(v, res.dump_path, judge_state, {"sample": None if sample >= 1.0 else sample, "seed": seed})
            finally:
                cleanup(res)
        cli_roundtrip(v)
        # parse_data's dispatch by extension / file_format and its fallbacks (specs/Dispatch.tla)
        from . import dispatch
        before = v.replayed
        dispatch.run(v, tier, seed)
        v.nontrivial += v.replayed - before
    finally:
        shutil.rmtree(_workdir(), ignore_errors=True)
        os.environ.pop("C06_WORKDIR", None)
    v.evaluations = v.nontrivial
    v.extra["rule"] = ("configurations = states of specs/Table.tla (header row x file options); the listed fraction of them (chosen by a hash "
                       "with VERIF_SEED) is written as a real file and parsed; non-trivial = files actually written and parsed; plus the "
                       "configurations of specs/Dispatch.tla (content x extension x file_format; TLC explores every order of the brute-force "
                       "loop), each run through parse_data with the parser calls recorded and validated by TLC (TraceDispatch.tla)")
    v.assumptions += ["one fixed family of spectra (both signs of Re and Im, 12 decades); pandas' own tokenising is exercised, not modelled",
                      "instrument layouts are written from the structure of the sample files in tests/"]
    return v.finish()
