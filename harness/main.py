"""./check <ID> [--tier quick|thorough] [--seed N] [--selftest] [--replay file]"""
from __future__ import annotations

import argparse
import importlib
import json
import os
import sys
import traceback

from .tlc import MachineryError


def main(argv=None) -> int:
    ap = argparse.ArgumentParser()
    ap.add_argument("prop")
    ap.add_argument("--tier", default=os.environ.get("VERIF_TIER", "quick"), choices=["quick", "thorough"])
    ap.add_argument("--seed", type=int, default=int(os.environ.get("VERIF_SEED", "0") or 0))
    ap.add_argument("--selftest", action="store_true")
    ap.add_argument("--replay")
    args = ap.parse_args(argv)
    os.environ.setdefault("PYTHONHASHSEED", "0")
    os.environ.setdefault("PYIMPSPEC_VERIF", "1")
    os.environ.setdefault("MPLBACKEND", "Agg")
    os.environ.setdefault("OMP_NUM_THREADS", "1")
    os.environ.setdefault("OPENBLAS_NUM_THREADS", "1")
    from .tlc import sweep_scratch
    sweep_scratch()
    try:
        mod = importlib.import_module(f"harness.{args.prop.lower()}")
    except ModuleNotFoundError:
        print(f"no check for {args.prop}", file=sys.stderr)
        return 2
    try:
        if args.selftest:
            return mod.selftest()
        if args.replay:
            with open(args.replay) as fh:
                case = json.load(fh)
            return mod.replay(case)
        return mod.run(args.tier, args.seed)
    except MachineryError as e:
        print(f"MACHINERY-ERROR property={args.prop}: {e}", file=sys.stderr)
        return 2
    except Exception:  # noqa: BLE001
        traceback.print_exc()
        print(f"MACHINERY-ERROR property={args.prop}: unexpected exception in the harness", file=sys.stderr)
        return 2


if __name__ == "__main__":
    sys.exit(main())
