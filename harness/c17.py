"""C17 — results are reproducible and independent of worker scheduling (specs/FanOut.tla).

TLC checks on the fan-out model that the winner is independent of submission order and completion
order for the collection mode / sort key each fan-out point of the library uses, and enumerates
every (submission order, completion order) pair.  Each pair is replayed on the real perform_zhit
through a pool substitute that delivers results in exactly that order (two chained stages), on
tie-prone and generic spectra, and must give the serial result.  Real multiprocessing runs with
num_procs in {1, 2, 4, 16}, injected worker delays and a perturbed global RNG must also reproduce the
serial result for fit_circuit, perform_zhit, evaluate_log_F_ext and the CNLS Kramers-Kronig test.
"""
from __future__ import annotations

import hashlib
import importlib
import random
import time

from . import tlaval
from .common import Verdict, ensure_repo_on_path
from .tlc import run_tlc, cleanup, MachineryError

POOL_MODULES = ["pyimpspec.analysis.zhit.reconstruction", "pyimpspec.analysis.zhit.offset", "pyimpspec.analysis.fitting",
                "pyimpspec.analysis.kramers_kronig.exploratory", "pyimpspec.analysis.drt.bht"]


def cfg_text(t, w, maxkey, unordered, tiebreak, invs):
    return (f"SPECIFICATION Spec\nCONSTANTS\n    T = {t}\n    W = {w}\n    MaxKey = {maxkey}\n    Unordered = {'TRUE' if unordered else 'FALSE'}\n"
            f"    TieBreak = {'TRUE' if tiebreak else 'FALSE'}\n" + "".join(f"INVARIANT {i}\n" for i in invs))


# ---------------------------------------------------------------------------
# pool substitute
# ---------------------------------------------------------------------------

def expand(perm, n):
    """Block permutation: n items in len(perm) contiguous blocks, delivered in the order of perm (1-based)."""
    t = len(perm)
    size = -(-n // t)
    blocks = [list(range(i * size, min(n, (i + 1) * size))) for i in range(t)]
    return [i for b in perm for i in blocks[b - 1]]


class _Iter:
    def __init__(self, results):
        self._r = list(results)

    def __iter__(self):
        return self

    def __next__(self):
        if not self._r:
            raise StopIteration
        return self._r.pop(0)

    def next(self, timeout=None):
        return self.__next__()


class ControlledPool:
    """Drop-in for multiprocessing.Pool: computes in-process, delivers in a prescribed order."""
    schedules = []      # one permutation (over T blocks) per pool created during a run
    created = 0

    def __init__(self, *a, **kw):
        k = ControlledPool.created
        ControlledPool.created += 1
        self.perm = ControlledPool.schedules[k] if k < len(ControlledPool.schedules) else None

    def __enter__(self):
        return self

    def __exit__(self, *a):
        return False

    def close(self):
        pass

    def join(self):
        pass

    def terminate(self):
        pass

    def map(self, func, iterable, chunksize=None):
        return [func(x) for x in iterable]

    def imap(self, func, iterable, chunksize=1):
        return _Iter(func(x) for x in list(iterable))

    def imap_unordered(self, func, iterable, chunksize=1):
        res = [func(x) for x in list(iterable)]
        if self.perm is None:
            return _Iter(res)
        return _Iter(res[i] for i in expand(self.perm, len(res)))


class patched_pools:
    def __init__(self, schedules):
        self.schedules = schedules

    def __enter__(self):
        self.saved = {}
        n = 0
        for name in POOL_MODULES:
            try:
                m = importlib.import_module(name)
            except Exception:  # noqa: BLE001
                continue
            if hasattr(m, "Pool"):
                self.saved[m] = m.Pool
                m.Pool = ControlledPool
                n += 1
        if n == 0:
            raise MachineryError("no module-level Pool found to substitute (the fan-out code moved?)")
        ControlledPool.schedules = list(self.schedules)
        ControlledPool.created = 0
        return self

    def __exit__(self, *a):
        for m, p in self.saved.items():
            m.Pool = p
        return False


# ---------------------------------------------------------------------------
# inputs and digests
# ---------------------------------------------------------------------------

def spectra():
    import numpy as np
    from pyimpspec import generate_mock_data, parse_cdc, simulate_spectrum
    f = np.logspace(5, 0, 21)
    return {
        "resistor (every candidate ties)": simulate_spectrum(parse_cdc("R{R=100}"), f),
        "cpe (constant phase, partial ties)": simulate_spectrum(parse_cdc("Q{Y=1e-4,n=0.8}"), f),
        "capacitor": simulate_spectrum(parse_cdc("C{C=1e-5}"), f),
        "noisy R(RC)(RQ)": _subsample(generate_mock_data("CIRCUIT_1", noise=5e-2, seed=7)[0], 17),
    }


def _subsample(data, n):
    import numpy as np
    from pyimpspec import DataSet
    f, Z = data.get_frequencies(), data.get_impedances()
    idx = sorted(set(int(round(x)) for x in np.linspace(0, len(f) - 1, n)))
    return DataSet(f[idx], Z[idx], label="noisy")


def digest(*arrays):
    import numpy as np
    h = hashlib.sha1()
    for a in arrays:
        h.update(np.ascontiguousarray(np.asarray(a)).tobytes())
    return h.hexdigest()[:16]


def zhit_result(data, **kw):
    import warnings
    import numpy as np
    from pyimpspec import perform_zhit
    with warnings.catch_warnings():
        warnings.simplefilter("ignore")
        with np.errstate(all="ignore"):
            r = perform_zhit(data, smoothing="auto", interpolation="auto", window="auto", **kw)
    return (r.smoothing, r.interpolation, r.window, repr(float(r.pseudo_chisqr)), digest(r.impedances))


# ---------------------------------------------------------------------------
# real multiprocessing with delays
# ---------------------------------------------------------------------------

def _delayed(fn):
    def wrapper(*a, **kw):
        time.sleep(random.random() * 0.004)
        return fn(*a, **kw)
    wrapper.__name__ = fn.__name__
    wrapper.__qualname__ = fn.__qualname__
    wrapper.__module__ = fn.__module__
    wrapper.__wrapped__ = fn
    return wrapper


class delayed_workers:
    TARGETS = [("pyimpspec.analysis.zhit.reconstruction", "_reconstruct"), ("pyimpspec.analysis.zhit.offset", "_adjust_offset"),
               ("pyimpspec.analysis.fitting", "_fit_process"), ("pyimpspec.analysis.kramers_kronig.exploratory", "_cnls_test")]

    def __enter__(self):
        self.saved = []
        for mod, name in self.TARGETS:
            try:
                m = importlib.import_module(mod)
                fn = getattr(m, name)
            except Exception:  # noqa: BLE001
                continue
            w = _delayed(fn)
            self.saved.append((m, name, fn))
            setattr(m, name, w)
            # pickle resolves a function through its defining module: install the wrapper there too
            home = importlib.import_module(fn.__module__)
            if home is not m and getattr(home, fn.__name__, None) is fn:
                self.saved.append((home, fn.__name__, fn))
                setattr(home, fn.__name__, w)
        return self

    def __exit__(self, *a):
        for m, name, fn in self.saved:
            setattr(m, name, fn)
        return False


def entry_runs():
    """name -> callable(num_procs) -> comparable digest"""
    import warnings
    import numpy as np
    import pyimpspec
    from pyimpspec import parse_cdc
    sp = spectra()
    noisy = sp["noisy R(RC)(RQ)"]

    def quiet(fn):
        def run(p):
            with warnings.catch_warnings():
                warnings.simplefilter("ignore")
                with np.errstate(all="ignore"):
                    return fn(p)
        return run

    def fit(p):
        r = pyimpspec.fit_circuit(parse_cdc("R(RC)(RQ)"), noisy, method=["leastsq", "least_squares", "nelder", "powell"],
                                  weight=["unity", "boukamp", "modulus"], max_nfev=200, num_procs=p)
        return (r.method, r.weight, repr(float(r.pseudo_chisqr)), r.circuit.serialize(), digest(r.impedances))

    def kk_ext(p):
        ev = pyimpspec.analysis.kramers_kronig.evaluate_log_F_ext(noisy, test="real", num_F_ext_evaluations=10, num_procs=p)
        return tuple((repr(float(e[0])), repr(float(e[2])), tuple(int(k.num_RC) for k in e[1])) for e in ev)

    def kk_cnls(p):
        r = pyimpspec.perform_kramers_kronig_test(noisy, test="cnls", num_RC=6, num_F_ext_evaluations=0, max_nfev=50, num_procs=p)
        return (int(r.num_RC), repr(float(r.pseudo_chisqr)), digest(r.impedances))

    def kk_de(p):
        r = pyimpspec.perform_kramers_kronig_test(noisy, test="real", num_F_ext_evaluations=-10, num_procs=p)
        return (int(r.num_RC), repr(float(r.pseudo_chisqr)), repr(float(r.log_F_ext)))

    out = {"fit_circuit[4 methods x 3 weights]": quiet(fit), "evaluate_log_F_ext[N=10]": quiet(kk_ext), "kramers_kronig[cnls]": quiet(kk_cnls),
           "perform_kramers_kronig_test[N=-10, differential evolution]": quiet(kk_de)}
    for name, d in sp.items():
        out[f"perform_zhit[auto x auto x auto] on {name}"] = quiet(lambda p, d=d: zhit_result(d, num_procs=p))
    return out


def _serial_zhit(name):
    ensure_repo_on_path()
    return zhit_result(spectra()[name], num_procs=1)


def _replay_zhit_pair(job):
    ensure_repo_on_path()
    name, order, done = job
    with patched_pools([list(order), list(done)]):
        got = zhit_result(spectra()[name], num_procs=2)
        used = ControlledPool.created
    return got, used


def selftest() -> int:
    ensure_repo_on_path()
    res = run_tlc("FanOut", cfg_text(4, 2, 2, True, False, ["WinnerIndependent"]))
    ok1 = res.violated == "WinnerIndependent"
    d = spectra()["resistor (every candidate ties)"]
    with patched_pools([[1, 2, 3, 4], [1, 2, 3, 4]]):
        a = zhit_result(d, num_procs=2)
        used = ControlledPool.created
    ok2 = used >= 2
    print("selftest C17:", "ok" if ok1 and ok2 else f"FAILED model={ok1} pools-substituted={used}")
    return 0 if ok1 and ok2 else 2


def replay(case) -> int:
    ensure_repo_on_path()
    print("replay C17:", case.get("detail"))
    return 1


def run(tier: str, seed: int) -> int:
    ensure_repo_on_path()
    import numpy as np
    v = Verdict("C17", tier, seed)
    t = 4
    # 1. the design: each fan-out point's (collection mode, sort key) makes the winner independent
    designs = [("perform_zhit (two chained stages, imap_unordered, key = (chi2, names))", True, True, "WinnerIndependent"),
               ("fit_circuit / KK (imap, map: ordered collection, key = chi2)", False, False, "WinnerIndependentOfSchedule"),
               ("numbers of the winner (any mode, any key)", True, False, "BestKeyIndependent")]
    for name, un, tb, inv in designs:
        res = run_tlc("FanOut", cfg_text(t, 2 if tier == "quick" else 3, 2 if tier == "quick" else 3, un, tb, [inv]), coverage=True)
        v.add_tlc(name, res)
        if res.violated:
            v.model_violation(f"FanOut:{inv}", res, f"{name}: the winner depends on the schedule in the model")
    # 2. every (submission order, completion order) pair of the model, replayed on the real Z-HIT
    res = run_tlc("FanOut", cfg_text(t, 2, 1, True, True, ["WinnerIndependent"]), dump=True)
    pairs = set()
    try:
        for st in tlaval.iter_dump_states(res.dump_path):
            if st["winner"] != 0:
                pairs.add((tuple(st["order"]), tuple(st["done"])))
    finally:
        cleanup(res)
    pairs = sorted(pairs)
    rng = random.Random(seed)
    if tier == "quick":
        pairs = rng.sample(pairs, min(len(pairs), 40))
    v.extra["schedules"] = len(pairs)
    sp = spectra()
    from concurrent.futures import ProcessPoolExecutor
    jobs = [(name, order, done) for name in sp for order, done in pairs]
    with ProcessPoolExecutor(max_workers=14) as ex:
        serials = dict(zip(sp, ex.map(_serial_zhit, list(sp))))
        results = list(ex.map(_replay_zhit_pair, jobs, chunksize=4))
    for (name, order, done), (got, used) in zip(jobs, results):
        serial = serials[name]
        if used < 2:
            raise MachineryError(f"perform_zhit created {used} pools; the substitution does not control its fan-out")
        v.replayed += 1
        if got != serial:
            what = "label" if got[3:] == serial[3:] else "numbers"
            v.report(f"zhit:schedule-dependent-{what}", {"spectrum": name, "stage1_order": order, "stage2_order": done, "serial": serial, "got": got},
                     f"perform_zhit on {name}: serial {serial[:4]} but {got[:4]} when results arrive as {order}/{done}")
    for name in sp:
        v.sample({"spectrum": name, "serial": serials[name][:4], "schedules": len(pairs)})
    # 2b. the same schedules on fit_circuit with exactly tying candidates (a resistor fitted to a resistive spectrum:
    #     several weights give bit-identical results); ordered collection must make the schedule irrelevant
    import warnings
    from pyimpspec import fit_circuit, parse_cdc

    def fit_ties(p):
        with warnings.catch_warnings():
            warnings.simplefilter("ignore")
            with np.errstate(all="ignore"):
                r = fit_circuit(parse_cdc("R{R=50}"), sp["resistor (every candidate ties)"], method=["nelder", "leastsq"],
                                weight=["boukamp", "modulus", "unity", "proportional"], max_nfev=200, num_procs=p)
        return (r.method, r.weight, repr(float(r.pseudo_chisqr)), r.circuit.serialize())

    serial = fit_ties(1)
    for order, done in pairs:
        with patched_pools([list(done), list(order)]):
            got = fit_ties(2)
            used = ControlledPool.created
        if used < 1:
            raise MachineryError("fit_circuit created no pool; the substitution does not control its fan-out")
        v.replayed += 1
        if got != serial:
            what = "label" if got[2:] == serial[2:] else "numbers"
            v.report(f"fit:schedule-dependent-{what}", {"completion_order": done, "serial": serial, "got": got},
                     f"fit_circuit with tying candidates: serial {serial[:3]} but {got[:3]} when results arrive as {done}")
    v.sample({"entry": "fit_circuit on a resistive spectrum", "serial": serial[:3], "schedules": len(pairs)})
    # 3. real multiprocessing
    procs = [1, 2, 4, 16] if tier == "thorough" else [1, 2, 4]
    repeats = 3 if tier == "thorough" else 1
    for name, fn in entry_runs().items():
        np.random.seed(12345)
        ref = fn(1)
        with delayed_workers():
            for p in procs:
                for k in range(repeats):
                    np.random.seed(seed * 1000 + 17 * p + k)        # hidden global state must not matter
                    random.seed(seed + k)
                    got = fn(p)
                    v.replayed += 1
                    if got != ref:
                        v.report(f"{name.split('[')[0]}:depends-on-num_procs-or-repetition",
                                 {"entry": name, "num_procs": p, "repeat": k, "serial": str(ref)[:300], "got": str(got)[:300]},
                                 f"{name}: num_procs=1 gave {str(ref)[:120]}, num_procs={p} (run {k}) gave {str(got)[:120]}")
    # 4. mock data
    from pyimpspec import generate_mock_data
    for ident in ("CIRCUIT_1", "CIRCUIT_5"):
        a = generate_mock_data(ident, noise=5e-2, seed=11)[0]
        b = generate_mock_data(ident, noise=5e-2, seed=11)[0]
        c = generate_mock_data(ident, noise=5e-2, seed=12)[0]
        v.replayed += 1
        if digest(a.get_frequencies(), a.get_impedances()) != digest(b.get_frequencies(), b.get_impedances()):
            v.report("mock-data:same-seed-differs", {"identifier": ident}, "generate_mock_data with the same seed is not bit-identical")
        if digest(a.get_impedances()) == digest(c.get_impedances()):
            v.report("mock-data:different-seeds-identical", {"identifier": ident}, "generate_mock_data with different seeds is identical")
    v.nontrivial = v.replayed
    v.evaluations = v.replayed
    v.extra["rule"] = ("schedules = every (submission order, completion order) pair reachable in specs/FanOut.tla with T = 4 blocks, expanded to the "
                       "real number of candidates and forced through a pool substitute, on four spectra (three tie-prone); plus real "
                       "multiprocessing runs over num_procs x repeats with delayed workers and a re-seeded global RNG")
    v.assumptions += ["no pool timeout fires (timeouts make results schedule-dependent by design)",
                      "BHT is excluded: it draws its start values from NumPy's global generator and accepts no seed"]
    return v.finish()
