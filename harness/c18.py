"""C18 — every documented option combination completes or is refused up front.

specs/ProgressMC.tla model-checks the Progress counter machine and enumerates the option cross
product of the analysis entry points; each configuration is run for real (spec -> code) on spectra of
several sizes with every Progress call and callback notification recorded, and all recorded traces
are validated against Progress.tla by TLC in one batch (specs/TraceProgress.tla, code -> spec).
"""
from __future__ import annotations

import json
import os
import random
import re
import time
from concurrent.futures import ProcessPoolExecutor

from . import tlaval
from .common import Verdict, ensure_repo_on_path
from . import progapi
from .common import replay_dump
from .progtrace import record, classify
from .tlc import run_tlc, cleanup, MachineryError, require_coverage, scratch_dir

# smallest spectrum for which the entry point's default configuration returns a result on the pinned tree
# (Z-HIT: 2 points only work with custom weights - every named window gives them zero weight -> ZHITError)
FLOORS = {"kk-fixed": 4, "kk-auto": 6, "zhit": 3, "drt-tr-nnls": 2, "drt-bht": 2, "drt-lm": 4, "drt-mrq-fit": 2, "fit": 2}


def mc_cfg(nwin=14):
    return (f"SPECIFICATION Spec\nCONSTANTS\n    MaxTotal = 3\n    MaxCalls = 5\n    NWin = {nwin}\n"
            "INVARIANT FractionInUnit\nINVARIANT RecentInRange\nINVARIANT CounterWithinTotal\nINVARIANT ScriptsNeverOverrun\n")


# ---------------------------------------------------------------------------
# running one configuration for real
# ---------------------------------------------------------------------------

_DATA = {}


def make_data(n: int, seed: int):
    """n points of a noisy mock spectrum (log-spaced subset of the bundled 'CIRCUIT_1')."""
    import numpy as np
    from pyimpspec import generate_mock_data, DataSet
    key = (n, seed)
    if key not in _DATA:
        full = generate_mock_data("CIRCUIT_1", noise=5e-2, seed=42 + seed)[0]
        f, Z = full.get_frequencies(), full.get_impedances()
        idx = sorted(set(int(round(x)) for x in np.linspace(0, len(f) - 1, n)))
        _DATA[key] = DataSet(f[idx], Z[idx], label=f"mock{n}")
    return _DATA[key]


def call_for(cfg, n, num_procs):
    """-> (callable, call-event options)."""
    import numpy as np
    import pyimpspec
    from pyimpspec import parse_cdc
    e = cfg["entry"]
    data = make_data(n, 0)
    if e == "kk":
        kw = dict(test=cfg["test"], add_capacitance=cfg["cap"], add_inductance=cfg["ind"],
                  admittance={"Z": False, "Y": True, "auto": None}[cfg["repr"]],
                  num_RC=(max(2, min(n - 1, 8)) if cfg["numrc"] == "fixed" else 0),
                  num_F_ext_evaluations={"neg": -10, "zero": 0, "pos": 10}[cfg["fext"]],
                  rapid_F_ext_evaluations=cfg["rapid"], num_procs=num_procs, timeout=120)
        extra = {}
        if cfg["fext"] == "pos" and cfg["test"] != "cnls":
            # the top-level Progress of evaluate_log_F_ext follows the accounting transcribed in Progress.tla
            extra = {"entry": "kk-custom", "opts": {"n": 10}}
        return (lambda: pyimpspec.perform_kramers_kronig_test(data, **kw)), extra
    if e == "zhit":
        kw = dict(smoothing=cfg["smoothing"], interpolation=cfg["interpolation"], admittance=cfg["admittance"], num_procs=num_procs)
        if cfg["window"] == "custom":
            kw["weights"] = np.ones(n, dtype=float)
        elif cfg["window"] == "named":
            kw["window"] = "hann"
        else:
            kw["window"] = "auto"
        from pyimpspec.analysis.zhit import weights as W
        if len(getattr(W, "_WINDOW_FUNCTIONS", {})) == 0 and hasattr(W, "_initialize_window_functions"):
            W._initialize_window_functions()
        nwin = len(getattr(W, "_WINDOW_FUNCTIONS", {}))
        opts = {"window": "auto" if cfg["window"] in ("auto", "custom") else "named", "smoothing": "auto" if cfg["smoothing"] == "auto" else "one",
                "interpolation": "auto" if cfg["interpolation"] == "auto" else "one", "custom": cfg["window"] == "custom"}
        return (lambda: pyimpspec.perform_zhit(data, **kw)), {"opts": opts, "nwin": nwin}
    if e == "drt":
        m = cfg["method"]
        if m == "tr-nnls":
            kw = dict(mode=cfg["mode"], lambda_value={"fixed": 1e-3, "auto-custom": -1.0, "auto-lc": -2.0}[cfg["lam"]])
        elif m == "lm":
            kw = dict(model_order_method=cfg["mode"], model_order=(0 if cfg["lam"] == "auto" else 3), num_procs=num_procs)
        elif m == "bht":
            kw = dict(rbf_type=cfg["mode"], rbf_shape=cfg["lam"], num_samples=200, num_attempts=3, num_procs=num_procs)
        else:
            cdc = "R(RQ)" if cfg["mode"] == "one" else "R(RQ)(RQ)"
            kw = dict(circuit=parse_cdc(cdc), num_procs=num_procs, max_nfev=200)
        return (lambda: pyimpspec.calculate_drt(data, method=m, **kw)), {}
    if e == "fit":
        meth = {"auto": "auto", "list2": ["leastsq", "nelder"]}.get(cfg["method"], cfg["method"])
        wgt = {"auto": "auto", "list2": ["unity", "boukamp"]}.get(cfg["weight"], cfg["weight"])
        nm = 9 if meth == "auto" else len(meth) if isinstance(meth, list) else 1
        nw = 4 if wgt == "auto" else len(wgt) if isinstance(wgt, list) else 1
        circuit = parse_cdc("R(RC)")
        return (lambda: pyimpspec.fit_circuit(circuit, data, method=meth, weight=wgt, max_nfev=100, num_procs=num_procs)), \
            {"opts": {"nm": nm, "nw": nw}}
    raise MachineryError(f"unknown entry {e}")


def run_config(arg):
    cfg, n, num_procs = arg
    ensure_repo_on_path()
    import warnings
    import numpy as np
    warnings.simplefilter("ignore")
    t0 = time.time()
    fn, extra = call_for(cfg, n, num_procs)
    call = {"ev": "call", "entry": extra.get("entry", cfg["entry"]), "opts": extra.get("opts", {"none": 0}), "nwin": extra.get("nwin", 0)}
    with record() as rec:
        try:
            with np.errstate(all="ignore"):
                fn()
            end = {"ev": "end", "outcome": "returned", "cls": "", "site": "", "message": ""}
        except BaseException as e:  # noqa: BLE001
            if isinstance(e, (KeyboardInterrupt, SystemExit)):
                raise
            end = dict({"ev": "end"}, **classify(e, rec.events))
    events = [call] + rec.events + [end]
    return {"cfg": cfg, "n": n, "num_procs": num_procs, "events": events, "wall": round(time.time() - t0, 2)}


# ---------------------------------------------------------------------------

def floor_of(cfg):
    e = cfg["entry"]
    if e == "kk":
        return FLOORS["kk-fixed"] if cfg["numrc"] == "fixed" else FLOORS["kk-auto"]
    if e == "drt":
        return FLOORS["drt-" + cfg["method"]]
    return FLOORS[e]


def validate_traces(v: Verdict, runs):
    """One TLC run over all recorded traces. Returns {index: (matched, length)} for rejected traces and the script-drift set."""
    work = scratch_dir("traces")
    path = os.path.join(work, "traces.json")
    with open(path, "w") as fh:
        json.dump([r["events"] for r in runs], fh)
    res = run_tlc("TraceProgress", "TraceProgress.cfg", workers=1, env={"TRACE_FILE": path}, timeout=3600)
    v.add_tlc(f"trace validation of {len(runs)} recorded runs", res, exhaustive=False)
    rejected, drift, validated = {}, set(), None
    for ln in res.output.splitlines():
        m = re.match(r'^<<"REJECT", (\d+), (\d+), (\d+)>>', ln)
        if m:
            rejected[int(m.group(1)) - 1] = (int(m.group(2)), int(m.group(3)))
        m = re.match(r'^<<"SCRIPT", (\d+)>>', ln)
        if m:
            drift.add(int(m.group(1)) - 1)
        m = re.match(r'^<<"VALIDATED", (\d+)>>', ln)
        if m:
            validated = int(m.group(1))
    import shutil
    shutil.rmtree(work, ignore_errors=True)
    if validated != len(runs):
        raise MachineryError(f"trace validation did not report on all traces ({validated} of {len(runs)})")
    return rejected, drift


def brief(cfg):
    return ",".join(f"{k}={v}" for k, v in cfg.items())


def judge(v: Verdict, runs):
    rejected, drift = validate_traces(v, runs)
    for k, r in enumerate(runs):
        end = r["events"][-1]
        case = {"config": r["cfg"], "points": r["n"], "num_procs": r["num_procs"]}
        in_scope = r["n"] >= floor_of(r["cfg"])
        v.replayed += 1
        if k in rejected:
            m, ln = rejected[k]
            ev = r["events"][m] if m < len(r["events"]) else {}
            if ev.get("ev") == "end":
                sig = f"{r['cfg']['entry']}:{ev['outcome']}:{ev['cls']}@{ev['site']}"
                detail = (f"{brief(r['cfg'])} on {r['n']} points ended part-way with {ev['cls']}: {ev['message']} "
                          f"(outcome class '{ev['outcome']}' is not one the property allows)")
            else:
                bad = [x for x in ev.get("emits", []) if not (0 <= x <= 1000)]
                sig = f"{r['cfg']['entry']}:progress:{ev.get('ev')}:{'fraction-outside-unit-interval-or-no-message' if bad else 'not-a-counter-machine-step'}"
                detail = f"{brief(r['cfg'])}: event {m} {ev} is not explained by Progress.tla (matched {m} of {ln} events)"
            if in_scope:
                v.report(sig, dict(case, event=ev, events_before=r["events"][max(0, m - 3):m]), detail)
            else:
                v.extra["below_size_floor_failures"] = v.extra.get("below_size_floor_failures", 0) + 1
        elif k in drift:
            v.drift(f"{r['cfg']['entry']}:step-accounting", case, f"{brief(r['cfg'])}: total or number of steps differs from the accounting in Progress.tla")
        if end["outcome"] == "refused-late":
            v.extra["late_refusals"] = v.extra.get("late_refusals", 0) + 1
        if len(v.samples) < 4:
            v.sample({"config": r["cfg"], "points": r["n"], "events": r["events"][:6] + ["..."] + r["events"][-2:]})


def selftest() -> int:
    ensure_repo_on_path()
    res = run_tlc("ProgressMC", mc_cfg(nwin=0))
    ok1 = res.violated == "ScriptsNeverOverrun"
    cfg = {"entry": "zhit", "smoothing": "none", "interpolation": "akima", "admittance": False, "window": "named"}
    good = run_config((cfg, 13, 1))
    bad = json.loads(json.dumps(good))
    k = next(i for i, e in enumerate(bad["events"]) if e["ev"] == "inc")
    bad["events"][k]["i"] += 1
    bad2 = json.loads(json.dumps(good))
    del bad2["events"][k]
    v = Verdict("C18", "quick", 0)
    rej, _ = validate_traces(v, [good, bad, bad2])
    ok2 = 0 not in rej and 1 in rej and 2 in rej
    # the API replay: a model counterexample (handles reused) and a broken dispatcher must both be seen
    res = run_tlc("ProgressApi", progapi.cfg_registry(4, 2), dump=True)
    hs = [st["hist"] for st in tlaval.iter_dump_states(res.dump_path) if len(st["hist"]) == 4]
    cleanup(res)
    two = next(h for h in hs if [r["op"] for r in h[:3]] == ["register", "register", "enter"] and h[2]["err"] == "")
    ok3 = not progapi.judge_api_history(two, None)
    from pyimpspec import progress as P
    orig = P._update
    try:
        P._update = lambda *a, **k: [cb(*a, **k) for cb in list(P._CALLBACKS.values())[:1]]
        out = progapi.judge_api_history(two, None)
    finally:
        P._update = orig
    ok4 = bool(out) and out[0][0] == "violation" and "registered-callback-not-notified" in out[0][1]
    ok = ok1 and ok2 and ok3 and ok4
    print("selftest C18:", "ok" if ok else f"FAILED model={ok1} binding={ok2} api-good={ok3} api-bad={ok4} {rej}")
    return 0 if ok else 2


def replay(case) -> int:
    ensure_repo_on_path()
    c = case["case"]
    if c.get("spec") == "ProgressApi":
        res = progapi.judge_api_history(tlaval.from_jsonable(c["hist"]), None)
        if not res:
            print("replay C18: the behaviour of the progress API conforms to the model on this tree")
            return 0
        kind, sig, step, detail, _ = res[0]
        print(f"replay C18: {kind} at step {step} [{sig}]: {detail}")
        return 1 if kind == "violation" else 0
    r = run_config((c["config"], c["points"], c.get("num_procs", 1)))
    print("replay C18:", brief(c["config"]), "->", r["events"][-1])
    return 0 if r["events"][-1]["outcome"] in ("returned", "refused-upfront", "library-error", "refused-late") else 1


def run(tier: str, seed: int) -> int:
    ensure_repo_on_path()
    v = Verdict("C18", tier, seed)
    res = run_tlc("ProgressMC", mc_cfg(), dump=True, coverage=True)
    try:
        v.add_tlc("counter machine + option cross product", res)
        if res.violated:
            v.model_violation("ProgressMC", res, "the Progress counter machine / step accounting model violates its invariant")
        require_coverage(res, ["Enter", "Increment", "SetMessage", "Exit"])
        configs = [st["cfg"] for st in tlaval.iter_dump_states(res.dump_path) if st["phase"] == "config" and st["calls"] == 0]
    finally:
        cleanup(res)
    # the public API of pyimpspec.progress (register / unregister + Progress calls), every behaviour replayed (spec -> code)
    plans = [("machine", progapi.cfg_machine(4), 4), ("registry", progapi.cfg_registry(5, 3), 5)] if tier == "quick" else \
            [("machine", progapi.cfg_machine(5), 5), ("registry", progapi.cfg_registry(6, 3), 6)]
    api_replayed = 0
    for name, cfg_txt, mh in plans:
        res = run_tlc("ProgressApi", cfg_txt, dump=True, coverage=True, timeout=7200, heap="24g")
        try:
            v.add_tlc(f"progress API ({name} plan, MaxHist={mh})", res)
            if res.violated:
                v.model_violation("ProgressApi", res, "the model of the progress API violates its own invariant")
            else:
                require_coverage(res, progapi.ACTIONS)
                before = v.replayed
                replay_dump(v, "ProgressApi", res.dump_path, mh, progapi.judge_api_history, None)
                api_replayed += v.replayed - before
        finally:
            cleanup(res)
    v.extra["progress_api_behaviours_replayed"] = api_replayed
    configs = [dict(c) for c in configs]
    configs.sort(key=lambda c: json.dumps(c, sort_keys=True))
    rng = random.Random(seed)
    jobs = []
    for c in configs:
        fl = floor_of(c)
        e = c["entry"]
        if tier == "quick":
            if e == "kk" and rng.random() > 0.12:
                continue
            if e == "fit" and (c["method"] == "auto" or c["weight"] == "auto") and rng.random() > 0.3:
                continue
            if e == "zhit" and rng.random() > 0.5:
                continue
            sizes = [rng.choice([fl, fl + 1, 13, 41])]
        else:
            sizes = [fl, fl + 1, 13, 41] if e != "kk" else [rng.choice([fl, fl + 1]), rng.choice([13, 41])]
        for n in sizes:
            jobs.append((c, n, rng.choice([1, 2])))
    # a few runs below the size floor are recorded, not judged
    for c in rng.sample(configs, 12 if tier == "quick" else 60):
        if floor_of(c) > 1:
            jobs.append((c, floor_of(c) - 1, 1))
    with ProcessPoolExecutor(max_workers=14) as ex:
        runs = list(ex.map(run_config, jobs, chunksize=1))
    v.extra["runs"] = len(runs)
    v.extra["outcomes"] = {}
    for r in runs:
        o = r["events"][-1]["outcome"]
        v.extra["outcomes"][o] = v.extra["outcomes"].get(o, 0) + 1
    judge(v, runs)
    v.nontrivial = len({json.dumps((r["cfg"], r["n"]), sort_keys=True) for r in runs}) + api_replayed
    v.evaluations = len(runs) + api_replayed
    v.extra["rule"] = ("configurations = states of specs/ProgressMC.tla with phase = 'config' (the option cross product per entry point), "
                       "sampled with VERIF_SEED in the quick tier, each run on spectra of the listed sizes; every run's Progress trace is "
                       "validated against Progress.tla; distinct = distinct (configuration, size) pairs + the behaviours of specs/ProgressApi.tla "
                       "(register / unregister interleaved with the calls of one or two nested Progress objects) replayed through pyimpspec.progress")
    # coverage extension (never an alarm): the (lower, upper) window of the automatic Kramers-Kronig test, specs/Suggest.tla
    try:
        from .suggest_ext import run_extension as _suggest_extension
        rep, nt, ev = v.replayed, v.nontrivial, v.evaluations
        _suggest_extension(v, tier)
        v.nontrivial, v.evaluations = nt, ev          # keep the C18 counts; the extension reports its own
    except Exception as e:  # noqa: BLE001  (an extension must not break the check of the listed property)
        v.extra["suggest_extension_error"] = f"{type(e).__name__}: {e}"[:300]
    v.assumptions += ["size floors per entry point are frozen from the pinned tree; smaller spectra are recorded, not judged",
                      "KK / DRT step accounting is not transcribed (their traces are validated against the counter machine only)"]
    return v.finish()
