"""Shared glue between specs/CDC.tla values and real pyimpspec circuits."""
from __future__ import annotations

import math
import traceback

ATOM_TEXT = {"sp": " ", "nonascii": "é", "tab": "\t"}


def atom_text(a: str) -> str:
    return ATOM_TEXT.get(a, a)


def dec_to_float(d) -> float:
    if not d["g"]:
        return math.nan
    if d["inf"]:
        return -math.inf if d["neg"] else math.inf
    return float(f"{'-' if d['neg'] else ''}{d['m']}e{d['e']}")


def chars(seq) -> str:
    return "".join(seq)


def model_tree(n):
    """CDC.tla node -> plain comparable structure."""
    if n["t"] == "conn":
        return ("conn", n["kind"], tuple(model_tree(x) for x in n["items"]))
    if n["t"] == "elem":
        ps = tuple((chars(p["key"]), dec_to_float(p["v"]), dec_to_float(p["lo"]), dec_to_float(p["hi"]), bool(p["fx"]))
                   for p in n["ps"])
        subs = tuple((chars(s["key"]), "open" if s["open"] else model_tree(s["con"])) for s in n["subs"])
        return ("elem", chars(n["sym"]), ps, subs, chars(n["label"]))
    return ("tok", n["k"])


def real_tree(x):
    from pyimpspec.circuit.base import Connection, Container, Element
    from pyimpspec.circuit.parallel import Parallel
    from pyimpspec.circuit.series import Series
    from pyimpspec import Circuit
    if isinstance(x, Circuit):
        return real_tree(x.get_connections(recursive=False)[0])
    if isinstance(x, Connection):
        kind = "S" if isinstance(x, Series) else "P" if isinstance(x, Parallel) else type(x).__name__
        return ("conn", kind, tuple(real_tree(i) for i in x))
    if isinstance(x, Element):
        v, lo, hi, fx = x.get_values(), x.get_lower_limits(), x.get_upper_limits(), x.are_fixed()
        ps = tuple((k, float(v[k]), float(lo[k]), float(hi[k]), bool(fx[k])) for k in v)
        subs = ()
        if isinstance(x, Container):
            sc = x.get_subcircuits()
            subs = tuple((k, "open" if sc[k] is None else real_tree(sc[k])) for k in sorted(sc))
        return ("elem", x.get_symbol(), ps, subs, x.get_label())
    return ("?", repr(x))


def _close(a: float, b: float) -> bool:
    if a == b or (math.isnan(a) and math.isnan(b)):
        return True
    if math.isinf(a) or math.isinf(b):
        return False
    return abs(a - b) <= 1e-12 * max(abs(a), abs(b))


def trees_equal(a, b) -> bool:
    if type(a) is not type(b):
        return False
    if isinstance(a, float):
        return _close(a, b)
    if isinstance(a, tuple):
        return len(a) == len(b) and all(trees_equal(x, y) for x, y in zip(a, b))
    return a == b


def sort_subs(t):
    """Model keeps subcircuits in class order, the real projection sorts keys: normalise both."""
    if isinstance(t, tuple) and t and t[0] == "elem":
        subs = tuple(sorted(((k, sort_subs(v)) for k, v in t[3]), key=lambda kv: kv[0]))
        return (t[0], t[1], t[2], subs, t[4])
    if isinstance(t, tuple) and t and t[0] == "conn":
        return (t[0], t[1], tuple(sort_subs(x) for x in t[2]))
    return t


def escape_site(exc: BaseException) -> str:
    """module.function of the innermost pyimpspec frame an exception came through."""
    tb = traceback.extract_tb(exc.__traceback__)
    site = "?"
    for fr in tb:
        if "/pyimpspec/" in fr.filename:
            site = fr.filename.split("/pyimpspec/")[-1].replace("/", ".").removesuffix(".py") + "." + fr.name
    return site


def parse_outcome(text: str):
    """Run the real parse_cdc. Returns (class_name, allowed, circuit_or_None, exc_or_None)."""
    from pyimpspec import parse_cdc
    from pyimpspec.exceptions import ParsingError, TokenizingError
    try:
        c = parse_cdc(text)
    except (ParsingError, TokenizingError) as e:
        return type(e).__name__, True, None, e
    except ValueError as e:
        return "ValueError", bool(str(e).strip()), None, e
    except BaseException as e:  # noqa: BLE001 - this is what C04 is about
        if isinstance(e, (KeyboardInterrupt, SystemExit)):
            raise
        return type(e).__name__, False, None, e
    return "", True, c, None


def within_limits(circuit) -> bool:
    for e in _all_elements(circuit):
        v, lo, hi = e.get_values(), e.get_lower_limits(), e.get_upper_limits()
        for k in v:
            if not (lo[k] <= v[k] <= hi[k]) or math.isinf(v[k]) or math.isnan(v[k]):
                return False
    return True


def _all_elements(circuit):
    from pyimpspec.circuit.base import Container
    out = []
    stack = list(circuit.get_elements(recursive=True))
    while stack:
        e = stack.pop()
        out.append(e)
        if isinstance(e, Container):
            for con in e.get_subcircuits().values():
                if con is not None:
                    stack.extend(con.get_elements(recursive=True))
    return out


def accepted_is_well_formed(circuit):
    """C04 second sentence. Returns None or (signature, detail)."""
    import numpy as np
    from pyimpspec import parse_cdc
    from pyimpspec.exceptions import ImpedanceError
    try:
        with np.errstate(all="ignore"):
            circuit.get_impedances(np.array([1e5, 1.0, 1e-3]))
    except (ImpedanceError, NotImplementedError):
        # NotImplementedError: the general transmission line model's documented refusal of the
        # sub-circuit configurations it has no equation for (see DESIGN, C04 notes)
        pass
    except BaseException as e:  # noqa: BLE001
        if isinstance(e, (KeyboardInterrupt, SystemExit)):
            raise
        return (f"accepted:simulate-escape:{type(e).__name__}@{escape_site(e)}", f"get_impedances raised {type(e).__name__}: {e}")
    if within_limits(circuit):
        try:
            text = circuit.serialize()
        except BaseException as e:  # noqa: BLE001
            return (f"accepted:serialize-escape:{type(e).__name__}@{escape_site(e)}", f"serialize() raised {type(e).__name__}: {e}")
        name, _, c2, exc = parse_outcome(text)
        if name != "":
            return (f"accepted:serialisation-rejected:{name}", f"serialize() = {text!r} is rejected with {name}: {exc}")
    return None


def tla_chars(text: str) -> str:
    esc = {"\\": "\\\\", '"': '\\"', "\t": "\\t", "\n": "\\n"}
    return "<<" + ", ".join('"' + esc.get(c, c) + '"' for c in text) + ">>"


def atoms_module(atoms) -> str:
    """CDCAtoms.tla: AtomChars(a) for the given atom names."""
    lines = ["---- MODULE CDCAtoms ----", "\\* generated by harness/cdcmodel.py: the characters of each lexical atom", "AtomChars(a) =="]
    first = True
    for a in sorted(set(atoms)):
        lines.append(f'    {"CASE" if first else "  []"} a = "{a}" -> {tla_chars(atom_text(a))}')
        first = False
    lines.append("====")
    return "\n".join(lines) + "\n"


def norm_tree(t, root=True):
    """Python twin of CDC.tla Norm/NormRoot on projected trees: merge same-kind nesting, unwrap singleton series."""
    if not (isinstance(t, tuple) and t):
        return t
    if t[0] == "elem":
        subs = []
        for k, v in t[3]:
            if v == "open":
                subs.append((k, v))
                continue
            n = norm_tree(v, root=True)       # keeps the wrapper around a lone element
            if n[1] == "S" and len(n[2]) == 1 and n[2][0][0] == "conn":
                n = n[2][0]
            subs.append((k, n))
        return (t[0], t[1], t[2], tuple(subs), t[4])
    if t[0] == "conn":
        items = []
        for x in t[2]:
            y = norm_tree(x, root=False)
            if y[0] == "conn" and y[1] == t[1]:
                items.extend(y[2])
            else:
                items.append(y)
        if not root and t[1] == "S" and len(items) == 1:
            return items[0]
        return (t[0], t[1], tuple(items))
    return t
