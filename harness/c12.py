"""C12 — circuit fitting respects constraints and recovers generating parameters (specs/Fit.tla).

specs/FitConfigs.tla enumerates circuit family x fixed-parameter pattern x limit box x method x weight x
constraint; each configuration (a seeded sample) is fitted for real to noise-free data simulated from
the same circuit with perturbed start values.  The harness abstracts the returned circuit into the
comparisons Fit.tla talks about and specs/TraceFit.tla decides every recorded fit: bounds, fixed
parameters, table = returned circuit, input untouched, user constraints, and - for the default
automatic method/weight - recovery of the generating values.
"""
from __future__ import annotations

import json
import math
import os
import random
import re
import shutil
import warnings
from concurrent.futures import ProcessPoolExecutor

from . import tlaval
from .common import Verdict, ensure_repo_on_path
from .tlc import run_tlc, cleanup, MachineryError, scratch_dir

TRUTH = {
    "R(RC)": ("R{R=100}(R{R=200}C{C=1e-6})", (5, 0)),
    "R(RQ)": ("R{R=100}(R{R=200}Q{Y=1e-5,n=0.9})", (5, 0)),
    "R(RC)(RC)": ("R{R=100}(R{R=200}C{C=1e-6})(R{R=500}C{C=1e-3})", (5, -2)),
    "R(RC)(RQ)": ("R{R=100}(R{R=200}C{C=1e-6})(R{R=500}Q{Y=1e-4,n=0.85})", (5, -2)),
    "R(C[RW])": ("R{R=100}(C{C=1e-6}[R{R=300}W{Y=1e-3}])", (5, -2)),
    "RL(RQ)": ("R{R=50}L{L=1e-6}(R{R=200}Q{Y=1e-5,n=0.9})", (6, 0)),
}


def sensible(cfg):
    return cfg["constraint"] == "none" or (cfg["family"] in ("R(RC)(RC)", "R(RC)(RQ)") and cfg["fixed"] == "none")


def prepare(cfg, seed):
    """-> (circuit to fit, truth dict per (element index, key), data, constraint kwargs, recover flag)"""
    import numpy as np
    from pyimpspec import parse_cdc, simulate_spectrum
    cdc, (hi, lo) = TRUTH[cfg["family"]]
    true_c = parse_cdc(cdc)
    f = np.logspace(hi, lo, (hi - lo) * 8 + 1)
    data = simulate_spectrum(true_c, f)
    c = parse_cdc(cdc)
    rng = random.Random(hash((cfg["family"], cfg["fixed"], cfg["box"], seed)) & 0xFFFFFFFF)
    elems = c.get_elements()
    truth = {}
    resistors = [i for i, e in enumerate(elems) if e.get_symbol() == "R"]
    fixed_idx = {"none": [], "first": [0], "last": [len(elems) - 1], "all-resistors": resistors}[cfg["fixed"]]
    for i, e in enumerate(elems):
        for k, v in e.get_values().items():
            truth[(i, k)] = v
            if e.is_fixed(k):
                continue                      # W.n stays fixed at its default
            if i in fixed_idx:
                e.set_fixed(k, True)          # fixed at the generating value
                continue
            expo = k in ("n",)
            factor = rng.choice([0.6, 0.75, 1.3, 1.6]) if cfg["box"] != "start-far" else rng.choice([0.35, 2.8])
            start = min(0.99, max(0.5, v + rng.choice([-0.08, 0.06]))) if expo else v * factor
            if cfg["box"] == "tight":
                e.set_lower_limits(k, max(0.0, v - 0.2) if expo else v / 3.5)
                e.set_upper_limits(k, min(1.0, v + 0.1) if expo else v * 3.5)
            e.set_values(k, start)
            if cfg["box"] == "value-on-lower-limit" and not expo:
                e.set_values(k, v * 0.7)
                e.set_lower_limits(k, v * 0.7)
            if cfg["box"] == "value-on-upper-limit" and not expo:
                e.set_values(k, v * 1.5)
                e.set_upper_limits(k, v * 1.5)
    kw = {}
    if cfg["constraint"] != "none":
        from pyimpspec import generate_fit_identifiers
        ids = generate_fit_identifiers(c)
        ra, rb = elems[resistors[1]], elems[resistors[2]]          # the two branch resistors: 200 and 500 ohm
        if cfg["constraint"] == "sum":
            kw = dict(constraint_expressions={ids[rb].R: f"{ids[ra].R} + alpha"}, constraint_variables=dict(alpha=dict(value=250, min=0)))
        else:
            kw = dict(constraint_expressions={ids[rb].R: f"2.5 * {ids[ra].R}"})
    recover = (cfg["method"] == "auto" and cfg["weight"] == "auto" and cfg["box"] in ("default", "tight"))
    return c, truth, data, kw, recover, resistors


def run_config(arg):
    cfg, seed = arg
    ensure_repo_on_path()
    import numpy as np
    from pyimpspec import fit_circuit
    from pyimpspec.exceptions import FittingError
    warnings.simplefilter("ignore")
    c, truth, data, kw, recover, resistors = prepare(cfg, seed)
    before = c.serialize(17)
    init = [(dict(e.get_values()), dict(e.get_lower_limits()), dict(e.get_upper_limits()), dict(e.are_fixed()), e.get_label()) for e in c.get_elements()]
    try:
        with np.errstate(all="ignore"):
            r = fit_circuit(c, data, method=cfg["method"], weight=cfg["weight"], max_nfev=(2000 if cfg["method"] != "auto" else -1), num_procs=1, **kw)
    except FittingError as e:
        return {"cfg": cfg, "error": f"FittingError: {str(e)[:120]}", "events": []}
    except Exception as e:  # noqa: BLE001
        return {"cfg": cfg, "error": f"{type(e).__name__}: {str(e)[:160]}", "crash": True, "events": []}
    out = r.circuit.get_elements()
    names = {}
    ids = r.circuit.generate_element_identifiers(running=False)
    params = []
    ok_names = True
    for i, e in enumerate(out):
        name = r.circuit.get_element_name(e, identifiers=ids)
        names[name] = e
        v0, lo0, hi0, fx0, lab0 = init[i]
        for k, v in e.get_values().items():
            lo, hi = e.get_lower_limit(k), e.get_upper_limit(k)
            tab = r.parameters.get(name, {}).get(k)
            params.append({
                "name": f"{name}.{k}",
                "cmpLo": (v > lo) - (v < lo), "cmpHi": (v > hi) - (v < hi),
                "fixed": bool(fx0[k]), "same": bool(v == v0[k]),
                "table_ok": bool(tab is not None and tab.value == v),
                "meta_same": bool(lo == lo0[k] and hi == hi0[k] and e.is_fixed(k) == fx0[k] and e.get_label() == lab0),
                "recovered": bool(abs(v / truth[(i, k)] - 1) <= 1e-3),
                "value": repr(v), "truth": repr(truth[(i, k)]),
            })
    ok_names = set(r.parameters.keys()) == set(names.keys())
    cons = True
    if cfg["constraint"] != "none":
        ra, rb = out[resistors[1]].get_value("R"), out[resistors[2]].get_value("R")
        cons = (rb >= ra * (1 - 1e-9)) if cfg["constraint"] == "sum" else abs(rb - 2.5 * ra) <= 1e-9 * abs(rb)
        recover = False
    ev = {"ev": "fit", "params": params, "input_unchanged": c.serialize(17) == before, "constraints_ok": bool(cons), "names_ok": bool(ok_names),
          "recover": bool(recover), "chi_small": bool(r.pseudo_chisqr < 1e-9), "chi": repr(float(r.pseudo_chisqr)), "method": r.method, "weight": r.weight}
    return {"cfg": cfg, "error": None, "events": [ev]}


def validate(v: Verdict, runs):
    work = scratch_dir("c12-traces")
    path = os.path.join(work, "traces.json")
    with open(path, "w") as fh:
        json.dump([r["events"] for r in runs], fh)
    res = run_tlc("TraceFit", "TraceFit.cfg", workers=1, env={"TRACE_FILE": path}, timeout=3600)
    v.add_tlc(f"trace validation of {len(runs)} recorded fits", res, exhaustive=False)
    rejected, validated = {}, None
    for ln in res.output.splitlines():
        m = re.match(r'^<<"REJECT", (\d+), "(\w+)">>', ln)
        if m:
            rejected[int(m.group(1)) - 1] = m.group(2)
        m = re.match(r'^<<"VALIDATED", (\d+)>>', ln)
        if m:
            validated = int(m.group(1))
    shutil.rmtree(work, ignore_errors=True)
    if validated != len(runs):
        raise MachineryError(f"trace validation did not report on all traces ({validated} of {len(runs)})")
    return rejected


def name_of(cfg):
    return ",".join(f"{k}={v}" for k, v in cfg.items())


def judge(v: Verdict, runs):
    good = [r for r in runs if r["error"] is None]
    for r in runs:
        if r["error"] is not None:
            if r.get("crash"):
                v.report(f"fit:raises:{r['error'].split(':')[0]}", {"config": r["cfg"]}, f"{name_of(r['cfg'])}: fit_circuit raised {r['error']}")
            else:
                v.extra["fitting_errors"] = v.extra.get("fitting_errors", 0) + 1
    rejected = validate(v, good)
    for k, r in enumerate(good):
        v.replayed += 1
        ev = r["events"][0]
        if k in rejected:
            if rejected[k] == "recovery":
                bad = [p["name"] + "=" + p["value"] + " (truth " + p["truth"] + ")" for p in ev["params"] if not p["recovered"]]
                v.report("fit:recovery", {"config": r["cfg"], "not_recovered": bad, "chi": ev["chi"]},
                         f"{name_of(r['cfg'])}: generating parameters not recovered: {bad[:4]}, pseudo chi-squared {ev['chi']}")
            else:
                why = ("input-circuit-modified" if not ev["input_unchanged"] else "constraint-violated" if not ev["constraints_ok"] else
                       "table-names" if not ev["names_ok"] else None)
                if why is None:
                    p = next(p for p in ev["params"] if not (p["cmpLo"] >= 0 and p["cmpHi"] <= 0 and (not p["fixed"] or p["same"]) and p["table_ok"] and p["meta_same"]))
                    why = ("outside-limits" if p["cmpLo"] < 0 or p["cmpHi"] > 0 else "fixed-parameter-changed" if p["fixed"] and not p["same"] else
                           "table-differs-from-circuit" if not p["table_ok"] else "limits-or-flags-changed")
                    detail = f"{p['name']} = {p['value']}"
                else:
                    detail = ""
                v.report(f"fit:{why}", {"config": r["cfg"], "event": ev}, f"{name_of(r['cfg'])}: {why} {detail}")
        if len(v.samples) < 3:
            v.sample({"config": r["cfg"], "fit": {k2: ev[k2] for k2 in ("method", "weight", "chi", "recover")}, "params": ev["params"][:3]})


def selftest() -> int:
    ensure_repo_on_path()
    cfg = {"family": "R(RC)", "fixed": "first", "box": "tight", "method": "leastsq", "weight": "boukamp", "constraint": "none"}
    good = run_config((cfg, 0))
    bad = json.loads(json.dumps(good))
    bad["events"][0]["params"][0]["same"] = False
    bad2 = json.loads(json.dumps(good))
    bad2["events"][0]["params"][1]["cmpHi"] = 1
    v = Verdict("C12", "quick", 0)
    rej = validate(v, [good, bad, bad2])
    ok = good["error"] is None and 0 not in rej and rej.get(1) == "invariants" and rej.get(2) == "invariants"
    print("selftest C12:", "ok" if ok else f"FAILED {good['error']} {rej}")
    return 0 if ok else 2


def replay(case) -> int:
    ensure_repo_on_path()
    r = run_config((case["case"]["config"], 0))
    print("replay C12:", name_of(case["case"]["config"]), r["error"] or r["events"][0])
    return 1


def run(tier: str, seed: int) -> int:
    ensure_repo_on_path()
    v = Verdict("C12", tier, seed)
    res = run_tlc("FitConfigs", "FitConfigs.cfg", dump=True)
    try:
        v.add_tlc("driver configurations", res)
        configs = [dict(tlaval.to_jsonable(st["cfg"])) for st in tlaval.iter_dump_states(res.dump_path)]
    finally:
        cleanup(res)
    configs = sorted([c for c in configs if sensible(c)], key=lambda c: json.dumps(c, sort_keys=True))
    rng = random.Random(seed)
    cheap = [c for c in configs if c["method"] != "auto" and c["weight"] != "auto"]
    auto = [c for c in configs if c["method"] == "auto" and c["weight"] == "auto" and c["box"] in ("default", "tight") and c["constraint"] == "none"]
    semi = [c for c in configs if (c["method"] == "auto") != (c["weight"] == "auto")]
    if tier == "quick":
        chosen = rng.sample(cheap, 1200) + rng.sample(auto, 24) + rng.sample(semi, 24)
    else:
        chosen = rng.sample(cheap, 2500) + auto + rng.sample(semi, 120)
    with ProcessPoolExecutor(max_workers=15) as ex:
        runs = list(ex.map(run_config, [(c, seed) for c in chosen], chunksize=1))
    judge(v, runs)
    v.nontrivial = len({json.dumps(r["cfg"], sort_keys=True) for r in runs if r["error"] is None})
    v.evaluations = len(runs)
    v.extra["rule"] = ("configurations = states of specs/FitConfigs.tla; a seeded sample is fitted for real (noise-free data simulated from the same "
                       "circuit, start values perturbed by up to 3x); every recorded fit is decided by specs/TraceFit.tla; recovery is required only "
                       "for method='auto', weight='auto' with default or tight limits")
    v.assumptions += ["six identifiable circuit families with fixed generating values; recovery tolerance 1e-3 relative, pseudo chi-squared < 1e-9"]
    return v.finish()
