"""C16 — element names and identifiers are unique and used consistently (specs/Circuit.tla).

TLC grows every circuit up to the bounds (incl. container elements with nested sub-circuits and
labelled/unlabelled mixes), computes the traversal order and the identifier maps, and checks the
bijection / uniqueness invariants on the model.  Every complete circuit is then built for real and
generate_element_identifiers(True/False), get_element_name, the free symbols of to_sympy(),
generate_fit_identifiers, FitResult.parameters / to_parameters_dataframe and the CircuiTikZ labels are
compared with the model element by element (elements are matched by their path, i.e. by identity).
"""
from __future__ import annotations

import math
import re

from . import tlaval
from .cdcmodel import chars
from .common import Verdict, ensure_repo_on_path, replay_states
from .tlc import run_tlc, cleanup, MachineryError

KINDS_QUICK = ["R", "C", "Ra", "Ru", "Qf", "Tlm", "TlmRC"]
KINDS_FULL = ["R", "C", "Q", "Qf", "Ra", "Rb", "Ca", "Ru", "Tlm", "TlmRC", "TlmTlm", "Tlmt"]


def cfg_text(leaves, depth, kinds, degenerate=False):
    q = "{" + ", ".join(f'"{k}"' for k in kinds) + "}"
    return (f"SPECIFICATION Spec\nCONSTANTS\n    MaxLeaves = {leaves}\n    MaxDepth = {depth}\n    LeafKinds = {q}\n    Degenerate = {'TRUE' if degenerate else 'FALSE'}\n"
            "INVARIANT RunningBijection\nINVARIANT PerTypeBijection\nINVARIANT NamesUnique\nINVARIANT ReachesEveryElement\n")


def resolve(root, path):
    """Follow a model path (item indices; 100 + k = k-th sub-circuit in class order) on real objects."""
    x = root
    for step in path:
        if step >= 100:
            keys = list(type(x).get_default_subcircuits().keys())
            x = x.get_subcircuits()[keys[step - 101]]
        else:
            x = list(x)[step - 1]
    return x


def show(n):
    if n["t"] == "elem":
        lab = chars(n["label"])
        subs = ",".join(f"{chars(s['key'])}={'open' if s['open'] else show(s['con'])}" for s in n["subs"]
                        if chars(s["key"]) in ("X_1", "Z_A") and not s["open"])
        return chars(n["sym"]) + (f":{lab}" if lab else "") + (f"{{{subs}}}" if subs else "")
    return ("[" if n["kind"] == "S" else "(") + " ".join(show(x) for x in n["items"]) + ("]" if n["kind"] == "S" else ")")


def build(st):
    from pyimpspec import Circuit
    from .c03 import build_real
    root = st["stack"][0]
    return Circuit(build_real(root)), root


def judge_state(st, ctx):
    if len(st["stack"]) != 1 or not st["stack"][0]["items"]:
        return [], 0, None
    from pyimpspec import parse_cdc
    exp = st["exp"]
    c, root = build(st)
    case = {"circuit": show(root)}
    res = []
    real_root = c.get_connections(recursive=False)[0]
    objs = [resolve(real_root, p) for p in exp["paths"]]
    n = exp["n"]

    def fail(sig, detail):
        res.append(("violation", sig, case, f"{show(root)}: {detail}"))
        return res, 1, case

    for where, circ, elems in (("api", c, objs),):
        run_ids = circ.generate_element_identifiers(running=True)
        typ_ids = circ.generate_element_identifiers(running=False)
        if len(run_ids) != n or len(typ_ids) != n:
            return fail("identifiers:count", f"{len(run_ids)} running / {len(typ_ids)} per-type identifiers for {n} elements")
        for i, e in enumerate(elems):
            if e not in run_ids or e not in typ_ids:
                return fail("identifiers:element-missing", f"element {i} ({e.get_symbol()}) has no identifier")
            if run_ids[e] != exp["running"][i]:
                return fail("identifiers:running", f"element at {exp['paths'][i]}: running id {run_ids[e]}, model {exp['running'][i]}")
            if typ_ids[e] != exp["pertype"][i]:
                return fail("identifiers:per-type", f"element at {exp['paths'][i]}: per-type id {typ_ids[e]}, model {exp['pertype'][i]}")
            lab = chars(exp["labels"][i])
            sym = chars(exp["syms"][i])
            want = f"{sym}_{lab}" if lab else f"{sym}_{exp['pertype'][i]}"
            if circ.get_element_name(e) != want or circ.get_element_name(e, identifiers=typ_ids) != want:
                return fail("names", f"get_element_name = {circ.get_element_name(e)!r}, model {want!r}")
        if sorted(run_ids.values()) != list(range(n)):
            return fail("identifiers:running-not-a-bijection", str(sorted(run_ids.values())))
    # symbols of the symbolic expression and fit identifiers
    labels = [chars(x) for x in exp["labels"]]
    dup = any(labels[i] and labels[i] == labels[j] and exp["syms"][i] == exp["syms"][j] for i in range(n) for j in range(i))
    want_syms = set()
    for i, e in enumerate(objs):
        for k in e.get_values():
            want_syms.add(f"{k}_{labels[i]}" if labels[i] else f"{k}_{exp['running'][i]}")
    try:
        free = {str(s) for s in c.to_sympy(substitute=False).free_symbols} - {"f"}
    except Exception as e:  # noqa: BLE001
        return fail(f"sympy:raises:{type(e).__name__}", str(e)[:200])
    if not free <= want_syms:
        return fail("sympy:unknown-symbol", f"free symbols {sorted(free - want_syms)} do not name a parameter of an element (expected within {sorted(want_syms)})")
    from pyimpspec.analysis.fitting import generate_fit_identifiers
    fid = generate_fit_identifiers(c)
    for i, e in enumerate(objs):
        got = {k: getattr(fid[e], k) for k in e.get_values()} if e in fid else None
        want = {k: f"{k}_{exp['running'][i]}" for k in e.get_values()}
        if got != want:
            return fail("fit-identifiers", f"element at {exp['paths'][i]}: {got} != {want}")
    # circuit diagram labels: one component per element of the connection structure, named as the circuit names it
    try:
        tikz = c.to_circuitikz()
    except Exception as e:  # noqa: BLE001
        return fail(f"circuitikz:raises:{type(e).__name__}", str(e)[:200])
    top = exp["top"]
    for i in range(top):
        sym, lab = chars(exp["syms"][i]), labels[i]
        sub = lab if lab else str(exp["pertype"][i])
        if not re.search(r"\$" + re.escape(sym) + r"_\{\\?r?m?\s*" + re.escape(sub) + r"\}\$|" + re.escape(sym) + r"_\{\\rm " + re.escape(sub) + r"\}", tikz):
            return fail("circuitikz:label-missing", f"no component labelled {sym}_{sub} in the CircuiTikZ source")
    # fitted parameter table: names and values belong to the right element
    if not dup and ctx and ctx.get("fit"):
        try:
            r = _fit(c)
        except Exception as e:  # noqa: BLE001 - e.g. a KeyError while the table of fitted parameters is assembled
            return fail(f"fit-table:raises:{type(e).__name__}", f"fit_circuit raised {type(e).__name__}: {str(e)[:200]}")
        if r is not None:
            fr_ids = r.circuit.generate_element_identifiers(running=True)
            by_run = {v: k for k, v in fr_ids.items()}
            for i in range(n):
                e = by_run[exp["running"][i]]
                sym, lab = chars(exp["syms"][i]), labels[i]
                name = f"{sym}_{lab}" if lab else f"{sym}_{exp['pertype'][i]}"
                if name not in r.parameters:
                    return fail("fit-table:name-missing", f"{name} not in FitResult.parameters {sorted(r.parameters)}")
                for k, fp in r.parameters[name].items():
                    if fp.value != e.get_value(k):
                        return fail("fit-table:value-of-other-element", f"{name}.{k} = {fp.value} but the element's value is {e.get_value(k)}")
            for running in (False, True):
                df = r.to_parameters_dataframe(running=running)
                if len(df) != sum(len(v) for v in r.parameters.values()):
                    return fail("fit-table:dataframe-rows", f"{len(df)} rows for {sum(len(v) for v in r.parameters.values())} parameters")
                run_names = {}
                for i in range(n):
                    sym, lab = chars(exp["syms"][i]), labels[i]
                    ext = f"{sym}_{lab}" if lab else f"{sym}_{exp['pertype'][i]}"
                    run_names[(f"{sym}_{lab}" if lab else f"{sym}_{exp['running'][i]}") if running else ext] = ext
                for _, row in df.iterrows():
                    ext = run_names.get(row["Element"])
                    fp = r.parameters.get(ext, {}).get(row["Parameter"]) if ext else None
                    if fp is None or fp.value != row["Value"] or (row["Fixed"] == "Yes") != bool(fp.fixed) or row["Unit"] != fp.unit:
                        return fail("fit-table:dataframe-row-differs-from-parameters",
                                    f"to_parameters_dataframe(running={running}) row {dict(row)} is not FitResult.parameters[{ext!r}][{row['Parameter']!r}]")
    return res, 1, case


def _fit(c):
    import warnings
    import numpy as np
    from pyimpspec import fit_circuit, simulate_spectrum
    from pyimpspec.exceptions import FittingError, ImpedanceError
    try:
        # distinct values so that a value reported under the wrong name is visible
        for i, e in enumerate(c.get_elements(recursive=True)):
            for j, k in enumerate(e.get_values()):
                if not e.is_fixed(k):
                    e.set_values(k, e.get_value(k) * (1 + 0.01 * (3 * i + j + 1)))
        with warnings.catch_warnings():
            warnings.simplefilter("ignore")
            with np.errstate(all="ignore"):
                data = simulate_spectrum(c, np.logspace(4, 0, 9))
                return fit_circuit(c, data, method="leastsq", weight="boukamp", max_nfev=3, num_procs=1)
    except (FittingError, ImpedanceError, NotImplementedError, ValueError):
        return None


def selftest() -> int:
    ensure_repo_on_path()
    res = run_tlc("Circuit", cfg_text(2, 1, ["R", "Tlm"]), dump=True)
    sts = [s for s in tlaval.iter_dump_states(res.dump_path) if len(s["stack"]) == 1 and len(s["stack"][0]["items"]) == 2]
    cleanup(res)
    st = sts[0]
    r1, _, _ = judge_state(st, {"fit": True})
    import copy
    bad = copy.deepcopy(st)
    bad["exp"]["running"] = list(reversed(bad["exp"]["running"]))
    r2, _, _ = judge_state(bad, None)
    ok = not r1 and bool(r2)
    print("selftest C16:", "ok" if ok else f"FAILED {r1} {r2}")
    return 0 if ok else 2


def replay(case) -> int:
    from .common import replay_state
    return replay_state(judge_state, case, "C16")


def run(tier: str, seed: int) -> int:
    ensure_repo_on_path()
    v = Verdict("C16", tier, seed)
    plans = [(3, 1, KINDS_QUICK, True), (2, 2, KINDS_QUICK + ["TlmTlm"], False)] if tier == "quick" else [(4, 2, ["R", "Ra", "Qf", "Tlm"], False), (3, 2, KINDS_FULL, True), (2, 3, KINDS_FULL, True)]
    for leaves, depth, kinds, fit in plans:
        res = run_tlc("Circuit", cfg_text(leaves, depth, kinds), dump=True, timeout=7200, heap="24g")
        try:
            v.add_tlc(f"leaves<={leaves} depth<={depth} kinds={len(kinds)}", res)
            if res.violated:
                v.model_violation("Circuit", res, "the identifier model violates its own invariant")
            else:
                replay_states(v, res.dump_path, judge_state, {"fit": fit})
        finally:
            cleanup(res)
    from .connection_ext import run_extension
    run_extension(v, tier)         # coverage beyond the listed properties (drift only)
    v.evaluations = v.replayed
    v.extra["rule"] = ("every circuit grown by the builder of specs/Circuit.tla; non-trivial = complete circuits; each is built through the API "
                       "and every identifier/name consumer is compared with the model, element by element via paths")
    v.assumptions += ["leaf kinds: R, C, Q (plain and labelled a/b), Tlm with default, two-element, parallel and nested container sub-circuits"]
    return v.finish()
