"""C20 — symbolic, LaTeX and diagram exports exist for every circuit (specs/Circuit.tla).

Uses the circuits grown by the builder of Circuit.tla (incl. the degenerate shapes only the API can
build and labels that are not identifiers).  For every complete circuit that can be simulated the real
to_sympy(False/True), to_latex, to_circuitikz and to_drawing are called and compared with the model:
free symbols, one CircuiTikZ component per element of the connection structure named as the circuit
names it, balanced begin/end.
"""
from __future__ import annotations

import re

from . import tlaval
from .cdcmodel import chars
from .common import Verdict, ensure_repo_on_path, replay_states
from .c16 import cfg_text, resolve, show, build
from .tlc import run_tlc, cleanup


def degenerate_kind(n):
    """'' or which API-only shape the tree contains."""
    if n["t"] == "elem":
        for s in n["subs"]:
            if not s["open"] and s["con"]["items"]:
                k = degenerate_kind(s["con"])
                if k:
                    return k
        return ""
    for x in n["items"]:
        if x["t"] == "conn":
            if not x["items"]:
                return "empty-nested-connection"
            if x["kind"] == "P" and len(x["items"]) == 1:
                return "single-branch-parallel"
        k = degenerate_kind(x)
        if k:
            return k
    return ""


def judge_state(st, ctx):
    if len(st["stack"]) != 1 or not st["stack"][0]["items"]:
        return [], 0, None
    import warnings
    import numpy as np
    from pyimpspec.exceptions import ImpedanceError
    exp = st["exp"]
    c, root = build(st)
    case = {"circuit": show(root)}
    try:
        with np.errstate(all="ignore"):
            c.get_impedances(np.array([1e4, 1.0, 1e-2]))
    except (ImpedanceError, NotImplementedError):
        return [], 0, None             # not simulatable: outside the property's quantifier
    res = []
    deg = degenerate_kind(root)
    labels = [chars(x) for x in exp["labels"]]
    odd = [lab for lab in labels if lab and not re.fullmatch(r"[A-Za-z0-9_]+", lab)]
    prefix = "degenerate-shape:" if deg else ("label-not-an-identifier:" if odd else "")

    def fail(sig, detail):
        res.append(("violation", prefix + sig, case, f"{show(root)}{' [' + deg + ']' if deg else ''}: {detail}"))

    n = exp["n"]
    real_root = c.get_connections(recursive=False)[0]
    objs = [resolve(real_root, p) for p in exp["paths"]]
    want_syms = set()
    for i, e in enumerate(objs):
        for k in e.get_values():
            want_syms.add(f"{k}_{labels[i]}" if labels[i] else f"{k}_{exp['running'][i]}")
    with warnings.catch_warnings():
        warnings.simplefilter("ignore")
        try:
            free = {str(s) for s in c.to_sympy(substitute=False).free_symbols} - {"f"}
            if not free <= want_syms:
                fail("sympy:unknown-symbol", f"free symbols {sorted(free - want_syms)} name no parameter (expected a subset of {sorted(want_syms)})")
            elif free != want_syms:
                fail("sympy:parameter-without-symbol", f"parameters without a variable: {sorted(want_syms - free)}")
        except Exception as e:  # noqa: BLE001
            fail(f"sympy:raises:{type(e).__name__}", str(e)[:160])
        try:
            sub = {str(s) for s in c.to_sympy(substitute=True).free_symbols}
            if not sub <= {"f"}:
                fail("sympy-substituted:free-variables", f"after substitution the expression still has {sorted(sub - {'f'})}")
        except Exception as e:  # noqa: BLE001
            fail(f"sympy-substituted:raises:{type(e).__name__}", str(e)[:160])
        try:
            tex = c.to_latex()
            if not isinstance(tex, str) or not tex.startswith("Z ="):
                fail("latex:format", repr(tex)[:80])
        except Exception as e:  # noqa: BLE001
            fail(f"latex:raises:{type(e).__name__}", str(e)[:160])
        try:
            tikz = c.to_circuitikz()
            if tikz.count("\\begin{circuitikz}") != 1 or tikz.count("\\end{circuitikz}") != 1 or \
                    tikz.strip().splitlines()[0].strip() != "\\begin{circuitikz}" or tikz.strip().splitlines()[-1].strip() != "\\end{circuitikz}":
                fail("circuitikz:unbalanced", tikz[:120])
            comps = re.findall(r"to\[(\w+)=\$(.+?)\$\]", tikz)
            if len(comps) != exp["top"]:
                fail("circuitikz:component-count", f"{len(comps)} components for {exp['top']} elements of the connection structure")
            else:
                for i in range(exp["top"]):
                    sym = chars(exp["syms"][i])
                    subscript = labels[i] if labels[i] else str(exp["pertype"][i])
                    want = f"{sym}_{{\\rm {subscript}}}"
                    if comps[i][1] != want:
                        fail("circuitikz:component-name", f"component {i} is labelled {comps[i][1]!r}, the circuit names it {want!r}")
                        break
        except Exception as e:  # noqa: BLE001
            fail(f"circuitikz:raises:{type(e).__name__}", str(e)[:160])
        if ctx.get("drawing"):
            try:
                import matplotlib
                matplotlib.use("Agg")
                import matplotlib.pyplot as plt
                d = c.to_drawing()
                try:
                    d.draw(show=False)
                finally:
                    plt.close("all")
            except Exception as e:  # noqa: BLE001
                fail(f"drawing:raises:{type(e).__name__}", str(e)[:160])
    return res, 1, case


def judge_tlm_exports(chunk):
    """The Tlm sub-circuit lattice of specs/Elements.tla: exports of R-Tlm{...} for every configuration that can be simulated."""
    ensure_repo_on_path()
    import warnings
    import numpy as np
    from pyimpspec import Circuit, Resistor
    from pyimpspec.circuit.registry import get_elements
    from pyimpspec.circuit.series import Series
    from pyimpspec.exceptions import ImpedanceError
    from .c02 import tlm_sub
    warnings.simplefilter("ignore")
    Tlm = get_elements(private=True)["Tlm"]
    roles = (("X_1", "x1"), ("X_2", "x2"), ("Z_A", "za"), ("Z_B", "zb"), ("Zeta", "ze"))
    out = []
    for cfg, expect in chunk:
        mentions = set(expect[1])
        subs = {k: tlm_sub(cfg["fin"], cfg[m]) for k, m in roles}
        e = Tlm(**subs)
        c = Circuit(Series([Resistor(), e]))
        case = {"config": {m: cfg[m] for _, m in roles}, "finite": cfg["fin"], "circuit": c.to_string()}
        res = []
        try:
            with np.errstate(all="ignore"):
                c.get_impedances(np.array([1e3, 1.0, 1e-2]))
        except (ImpedanceError, NotImplementedError):
            out.append((res, None))        # not simulatable: outside the quantifier
            continue

        def fail(sig, detail):
            res.append(("violation", "tlm:" + sig, case, f"{case['circuit']}: {detail}"))

        ids = c.generate_element_identifiers(running=True)
        want = {f"R_{ids[c.get_elements(recursive=False)[0]]}", f"L_{ids[e]}"}
        for role, con in e.get_subcircuits().items():
            if con is None or role not in mentions:
                continue
            for el in con.get_elements(recursive=True):
                want |= {f"{k}_{ids[el]}" for k in el.get_values()}
        try:
            free = {str(x) for x in c.to_sympy(substitute=False).free_symbols} - {"f"}
            if not free <= want | {f"{k}_{i}" for el, i in ids.items() for k in el.get_values()}:
                fail("sympy:unknown-symbol", f"free symbols {sorted(free)} include names of no parameter")
            elif want - free:
                fail("sympy:parameter-without-symbol", f"parameters without a variable: {sorted(want - free)} (the model expects the sub-circuits {sorted(mentions)} to be mentioned)")
        except Exception as ex:  # noqa: BLE001
            fail(f"sympy:raises:{type(ex).__name__}", str(ex)[:160])
        try:
            sub = {str(x) for x in c.to_sympy(substitute=True).free_symbols}
            if not sub <= {"f"}:
                fail("sympy-substituted:free-variables", f"after substitution the expression still has {sorted(sub - {'f'})}")
        except Exception as ex:  # noqa: BLE001
            fail(f"sympy-substituted:raises:{type(ex).__name__}", str(ex)[:160])
        try:
            tex = c.to_latex()
            if not isinstance(tex, str) or not tex.startswith("Z ="):
                fail("latex:format", repr(tex)[:80])
        except Exception as ex:  # noqa: BLE001
            fail(f"latex:raises:{type(ex).__name__}", str(ex)[:160])
        try:
            tikz = c.to_circuitikz()
            comps = re.findall(r"to\[(\w+)=\$(.+?)\$\]", tikz)
            if tikz.count("\\begin{circuitikz}") != 1 or tikz.count("\\end{circuitikz}") != 1:
                fail("circuitikz:unbalanced", tikz[:120])
            elif [x[1] for x in comps] != ["R_{\\rm 1}", "Tlm_{\\rm 1}"]:
                fail("circuitikz:component-name", f"components {[x[1] for x in comps]}; the circuit names them R_1 and Tlm_1 (a container counts as one)")
        except Exception as ex:  # noqa: BLE001
            fail(f"circuitikz:raises:{type(ex).__name__}", str(ex)[:160])
        out.append((res, case))
    return out


def selftest() -> int:
    ensure_repo_on_path()
    res = run_tlc("Circuit", cfg_text(2, 1, ["R", "C"]), dump=True)
    sts = [s for s in tlaval.iter_dump_states(res.dump_path) if len(s["stack"]) == 1 and len(s["stack"][0]["items"]) == 2]
    cleanup(res)
    r1, _, _ = judge_state(sts[0], {"drawing": True})
    import copy
    bad = copy.deepcopy(sts[0])
    bad["exp"]["top"] = 1
    r2, _, _ = judge_state(bad, {"drawing": False})
    ok = not r1 and bool(r2)
    print("selftest C20:", "ok" if ok else f"FAILED {r1} {r2}")
    return 0 if ok else 2


def replay(case) -> int:
    from .common import replay_state
    return replay_state(judge_state, case, "C20")


def run(tier: str, seed: int) -> int:
    ensure_repo_on_path()
    v = Verdict("C20", tier, seed)
    if tier == "quick":
        plans = [(3, 2, ["R", "C", "Q", "Ra"], False, True, False), (2, 1, ["R", "Ru", "Ca"], False, True, False), (2, 1, ["R", "Ca", "Tlm", "TlmRC", "Tlmt"], False, True, True),
                 (2, 2, ["R", "C"], True, True, False), (2, 1, ["R", "Rdash", "Rsp"], False, False, False)]
    else:
        plans = [(4, 2, ["R", "C", "Ra"], False, False, False), (3, 3, ["R", "C", "Q", "Ra"], False, True, False),
                 (3, 2, ["R", "Ru", "Ca", "Qf"], False, True, False), (2, 2, ["R", "Ca", "Tlm", "TlmRC", "TlmTlm", "Tlmt"], False, True, True),
                 (3, 2, ["R", "C"], True, True, False), (3, 1, ["R", "C", "Rdash", "Rsp"], False, True, False)]
    for leaves, depth, kinds, degenerate, drawing, containers in plans:
        res = run_tlc("Circuit", cfg_text(leaves, depth, kinds, degenerate), dump=True, timeout=7200, heap="24g")
        try:
            v.add_tlc(f"leaves<={leaves} depth<={depth} kinds={'/'.join(kinds)} degenerate={degenerate}", res)
            if res.violated:
                v.model_violation("Circuit", res, "the identifier model violates its own invariant")
            else:
                replay_states(v, res.dump_path, judge_state, {"drawing": drawing, "containers": containers})
        finally:
            cleanup(res)
    # the sub-circuit lattice of the general transmission line model (specs/Elements.tla, Part = "tlm")
    from .c02 import cfg_text as elements_cfg
    from .common import parallel_map
    res = run_tlc("Elements", elements_cfg("tlm"), dump=True)
    try:
        v.add_tlc("Tlm sub-circuit lattice (243 configurations x 3 finite sub-circuits)", res)
        if res.violated:
            v.model_violation("Elements:tlm", res, "the dispatch tables of the transmission line model disagree in the model")
        items = [(dict(st["cfg"]), [st["expect"][0], sorted(st["expect"][1])]) for st in tlaval.iter_dump_states(res.dump_path)]
    finally:
        cleanup(res)
    items.sort(key=lambda it: sorted(it[0].items()))
    if tier == "quick":
        items = [it for it in items if it[0]["fin"] == "RC"]
    for res_list, case in parallel_map(judge_tlm_exports, items, procs=14, chunk=6):
        v.replayed += 1
        if case is not None:
            v.nontrivial += 1
            v.sample(case, limit=8)
        for kind, sig, cs, detail in res_list:
            v.report(sig, cs, detail)
    v.evaluations = v.replayed
    v.extra["rule"] = ("every circuit grown by the builder of specs/Circuit.tla (per plan: leaf kinds, degenerate shapes on/off); "
                       "non-trivial = complete and simulatable circuits; all four exports are produced for each")
    v.assumptions += ["Tlm with both phases finite and both boundaries short: the interfacial impedance cancels from the impedance itself "
                      "(eq. 16 collapses), so its parameters have no variable - named as a deviation in Elements.tla (TlmMentions), not judged"]
    return v.finish()
