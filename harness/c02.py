"""C02 — numeric impedance equals the documented equation (partial; specs/Elements.tla).

The spec owns the discrete parts: the two dispatch tables of the general transmission line model
(checked equal on all 243 sub-circuit configurations), the 0 / infinite frequency scatter, and the
corner grid of every registered element class.  At every enumerated point the harness compares the
numeric get_impedances with the symbolic expression (to_sympy(substitute=True), lambdified) - that
comparison is a differential numeric check made by the harness, TLC does not evaluate equations.
"""
from __future__ import annotations

import math
import warnings

from . import tlaval
from .common import Verdict, ensure_repo_on_path, parallel_map
from .tlc import run_tlc, cleanup, MachineryError

FREQS = [10 ** (x / 3) for x in range(-12, 19)]          # 1e-4 .. 1e6 Hz


def cfg_text(part, arity=1, maxoff=1):
    return (f'SPECIFICATION Spec\nCONSTANTS\n    Part = "{part}"\n    Arity = {arity}\n    MaxOff = {maxoff}\n'
            "INVARIANT DispatchTablesAgree\nINVARIANT ScatterIsPointwise\n")


def sym_eval(obj, freqs):
    """Evaluate obj.to_sympy(substitute=True) numerically at freqs (list of complex or None where not finite)."""
    import numpy as np
    import sympy
    expr = obj.to_sympy(substitute=True)
    f = sympy.Symbol("f")
    fn = sympy.lambdify(f, expr, modules=[{"coth": lambda x: 1 / np.tanh(x)}, "numpy"])
    out = []
    for x in freqs:
        try:
            with np.errstate(all="ignore"):
                z = complex(fn(x))
        except Exception:  # noqa: BLE001
            try:
                z = complex(expr.subs(f, x).evalf(30))
            except Exception:  # noqa: BLE001
                z = None
        out.append(z)
    return out


def compare(obj, freqs, rtol=1e-7):
    """-> None or (frequency, numeric, symbolic)."""
    import numpy as np
    with np.errstate(all="ignore"):
        zn = [complex(z) for z in obj.get_impedances(np.array(freqs))]
    zs = sym_eval(obj, freqs)
    for x, a, b in zip(freqs, zn, zs):
        if b is None or not (math.isfinite(abs(a)) and math.isfinite(abs(b))):
            continue
        if abs(a - b) > rtol * max(abs(a), abs(b), 1e-300):
            return (x, a, b)
    return None


# ---------------------------------------------------------------------------

def corner_value(cls, key, corner):
    lo, hi, dv = cls.get_default_lower_limits()[key], cls.get_default_upper_limits()[key], cls.get_default_values()[key]
    expo = (lo == 0.0 and hi == 1.0)
    if corner == "def":
        return dv
    if corner == "off":
        return dv * 0.9 if expo else dv * 1.7
    if corner == "lo":
        if expo:
            return 0.25
        return dv / 100 if (math.isinf(lo) or lo <= dv / 1e6) else lo
    if corner == "hi":
        if expo:
            return 1.0
        return dv * 100 if (math.isinf(hi) or hi >= dv * 1e6) else hi
    raise MachineryError(corner)


def judge_corners(chunk):
    ensure_repo_on_path()
    import numpy as np
    from pyimpspec.circuit.registry import get_elements
    from pyimpspec.exceptions import ImpedanceError
    warnings.simplefilter("ignore")
    out = []
    for sym, vec in chunk:
        cls = get_elements(private=True)[sym]
        keys = list(cls.get_default_values().keys())
        e = cls()
        vals = {k: corner_value(cls, k, c) for k, c in zip(keys, vec)}
        e.set_values(**vals)
        case = {"element": sym, "values": {k: repr(v) for k, v in vals.items()}}
        try:
            bad = compare(e, FREQS)
        except (ImpedanceError, NotImplementedError, OverflowError, ZeroDivisionError):
            out.append(([], case))
            continue
        res = []
        if bad:
            off = [k for k, c in zip(keys, vec) if c != "def"]
            res.append(("violation", f"element:{sym}:numeric-differs-from-equation", case,
                        f"{sym} with {case['values']}: at f = {bad[0]:.3g} Hz numeric {bad[1]} but the equation gives {bad[2]} (parameters off their default: {off})"))
        out.append((res, case))
    return out


def tlm_sub(kind, state):
    from pyimpspec import parse_cdc
    from pyimpspec.circuit.series import Series
    if state == "open":
        return None
    if state == "short":
        return Series([])
    cdc = {"R": "[R{R=3}]", "RC": "[R{R=2}C{C=1e-3}]", "(RC)": "(R{R=5}C{C=2e-4})"}[kind]
    return parse_cdc(cdc).get_connections(recursive=False)[0].get_connections(recursive=False)[0] if kind == "(RC)" else \
        parse_cdc(cdc).get_connections(recursive=False)[0]


def judge_tlm(chunk):
    ensure_repo_on_path()
    import numpy as np
    from pyimpspec import Circuit
    from pyimpspec.circuit.registry import get_elements
    from pyimpspec.circuit.series import Series
    from pyimpspec.exceptions import ImpedanceError
    warnings.simplefilter("ignore")
    Tlm = get_elements(private=True)["Tlm"]
    out = []
    for cfg, expect in chunk:
        want = expect[0]
        subs = {k: tlm_sub(cfg["fin"], cfg[m]) for k, m in (("X_1", "x1"), ("X_2", "x2"), ("Z_A", "za"), ("Z_B", "zb"), ("Zeta", "ze"))}
        e = Tlm(**subs)
        e.set_values(L=1.3)
        case = {"config": {m: cfg[m] for m in ("x1", "x2", "za", "zb", "ze")}, "finite": cfg["fin"]}
        # which equation runs (wrap the _eq methods on the instance)
        ran = []
        for name in [n for n in dir(Tlm) if n.startswith("_eq")]:
            orig = getattr(e, name)
            setattr(e, name, (lambda o, n: (lambda *a, **k: (ran.append(n), o(*a, **k))[1]))(orig, name))
        c = Circuit(Series([e]))
        res = []
        f = np.array([1e3, 1.0, 1e-2])
        numeric_fails = False
        try:
            with np.errstate(all="ignore"):
                c.get_impedances(f)
            num = ran[0].lstrip("_") if ran else "?"
        except NotImplementedError as ex:
            num = "refused"
        except ImpedanceError:
            numeric_fails = True          # e.g. a shorted boundary: NaN -> NotANumberImpedance; nothing to compare with
            num = ran[0].lstrip("_") if ran else "impedance-error"
        try:
            c.to_sympy(substitute=True)
            symb = "ok"
        except NotImplementedError:
            symb = "refused"
        except Exception as ex:  # noqa: BLE001
            symb = f"raises:{type(ex).__name__}"
        refused = not want.startswith("eq")
        if (num == "refused") != (symb == "refused"):
            res.append(("violation", "tlm:numeric-and-symbolic-refusals-differ", case, f"{case}: numeric {num}, symbolic {symb}"))
        elif refused != (num == "refused"):
            res.append(("drift", "tlm:refusal", case, f"{case}: model {want}, numeric {num}"))
        elif not refused:
            if num != want:
                res.append(("drift", "tlm:dispatch", case, f"{case}: model dispatches to {want}, the implementation ran {num}"))
            if symb.startswith("raises") and numeric_fails:
                res.append(("drift", f"tlm:not-simulatable-and-symbolic-{symb}", case, f"{case}: the numeric evaluation ends in an ImpedanceError and to_sympy raised"))
            elif symb.startswith("raises"):
                res.append(("violation", f"tlm:symbolic-{symb}", case, f"{case}: to_sympy raised although the configuration can be simulated"))
            else:
                try:
                    bad = compare(c, FREQS[::3])
                except (ImpedanceError, OverflowError, ZeroDivisionError):
                    bad = None
                if bad:
                    res.append(("violation", f"tlm:{want}:numeric-differs-from-equation", case,
                                f"Tlm {case} ({want}): at f = {bad[0]:.3g} Hz numeric {bad[1]}, symbolic {bad[2]}"))
        out.append((res, case))
    return out


def judge_scatter(chunk):
    ensure_repo_on_path()
    import numpy as np
    from pyimpspec import parse_cdc
    from pyimpspec.exceptions import ImpedanceError
    warnings.simplefilter("ignore")
    circuits = [parse_cdc("R{R=10}(R{R=20}C{C=1e-3})"), parse_cdc("R{R=5}(R{R=7}Q{Y=1e-3,n=0.8})"), parse_cdc("R{R=1}L{L=1e-3}(R{R=2}C{C=1e-2})")]
    fmap = {0: 0.0, 1: 3.0, 2: 250.0, 9: math.inf}
    out = []
    for cfg, expect in chunk:
        fs = [fmap[x] for x in cfg["fs"]]
        case = {"frequencies": [repr(x) for x in fs]}
        res = []
        for c in circuits[:2]:
            try:
                with np.errstate(all="ignore"):
                    vec = [complex(z) for z in c.get_impedances(np.array(fs))]
                    one = [complex(c.get_impedances(np.array([x]))[0]) for x in fs]
            except ImpedanceError:
                continue
            if any(abs(a - b) > 1e-9 * max(abs(b), 1e-300) for a, b in zip(vec, one)):
                res.append(("violation", "scatter:position", dict(case, circuit=c.to_string(1)), f"{c.to_string(0)} at {fs}: vector {vec} vs one at a time {one}"))
                break
            # a finite limit is the continuous extension of the finite-frequency values
            for x, z in zip(fs, vec):
                if x == 0.0:
                    near = complex(c.get_impedances(np.array([1e-9]))[0])
                elif math.isinf(x):
                    near = complex(c.get_impedances(np.array([1e12]))[0])
                else:
                    continue
                if abs(z - near) > 1e-4 * max(abs(z), 1e-12):
                    res.append(("violation", "limit:not-the-continuous-extension", dict(case, circuit=c.to_string(1)),
                                f"{c.to_string(0)}: reported limit {z} at f = {x}, but Z = {near} next to it"))
                    break
        out.append((res, case))
    return out


def selftest() -> int:
    ensure_repo_on_path()
    from pyimpspec.circuit.registry import get_elements
    from pyimpspec.circuit.base import Element
    e = get_elements(private=True)["Ls"]()
    e.set_values(R_r=3.0)
    ok1 = compare(e, FREQS) is None
    r = judge_tlm([({"x1": "fin", "x2": "short", "za": "open", "zb": "open", "ze": "fin", "fin": "R"}, ["eq8"])])
    ok2 = any(k == "drift" for k, *_ in r[0][0])
    print("selftest C02:", "ok" if ok1 and ok2 else f"FAILED {ok1} {ok2}")
    return 0 if ok1 and ok2 else 2


def replay(case) -> int:
    print("replay C02:", case.get("detail"))
    return 1


def run(tier: str, seed: int) -> int:
    ensure_repo_on_path()
    from pyimpspec.circuit.registry import get_elements
    v = Verdict("C02", tier, seed)

    def consume(results):
        for res_list, case in results:
            v.replayed += 1
            v.sample(case, limit=5)
            for kind, sig, c, detail in res_list:
                (v.report if kind == "violation" else v.drift)(sig, c, detail)

    # 1. transmission line dispatch
    res = run_tlc("Elements", cfg_text("tlm"), dump=True)
    try:
        v.add_tlc("Tlm dispatch tables (243 configurations x 3 finite sub-circuits)", res)
        if res.violated:
            v.model_violation("Elements:tlm", res, "the numeric and the symbolic dispatch of the transmission line model disagree in the model")
        items = [(dict(st["cfg"]), list(st["expect"])) for st in tlaval.iter_dump_states(res.dump_path)]
    finally:
        cleanup(res)
    if tier == "quick":
        items = [it for it in items if it[0]["fin"] == "RC"] + [it for it in items if it[0]["fin"] != "RC"][::3]
    consume(parallel_map(judge_tlm, items, procs=14, chunk=10))
    # 2. scatter
    res = run_tlc("Elements", cfg_text("scatter"), dump=True)
    try:
        v.add_tlc("0 / infinite frequency scatter (vectors of length <= 4)", res)
        if res.violated:
            v.model_violation("Elements:scatter", res, "the index bookkeeping of the limit scatter is wrong in the model")
        items = [(dict(st["cfg"]), list(st["expect"])) for st in tlaval.iter_dump_states(res.dump_path)]
    finally:
        cleanup(res)
    if tier == "quick":
        items = items[::3]
    consume(parallel_map(judge_scatter, items, procs=14, chunk=6))
    # 3. corner grid of every registered class
    by_arity = {}
    for sym, cls in sorted(get_elements(private=True).items()):
        by_arity.setdefault(len(cls.get_default_values()), []).append(sym)
    for arity, syms in sorted(by_arity.items()):
        maxoff = arity if (tier == "thorough" and arity <= 5) else min(arity, 3)
        res = run_tlc("Elements", cfg_text("corners", arity, maxoff), dump=True)
        try:
            v.add_tlc(f"corner grid arity={arity} (<= {maxoff} parameters off default) for {'/'.join(syms)}", res)
            vecs = [list(st["cfg"]["v"]) for st in tlaval.iter_dump_states(res.dump_path)]
        finally:
            cleanup(res)
        items = [(sym, vec) for sym in syms for vec in vecs]
        consume(parallel_map(judge_corners, items, procs=14, chunk=20))
    v.nontrivial = v.replayed
    v.evaluations = v.replayed
    v.extra["rule"] = ("points = states of specs/Elements.tla: Tlm sub-circuit configurations, frequency vectors with 0 / inf entries, and the corner "
                       "vectors of every registered element class; at each the numeric impedance is compared with the lambdified symbolic "
                       "expression at 31 frequencies (rtol 1e-7)")
    v.assumptions += ["corners + off-default values, not the continuum; the numeric equality is checked by the harness, not by TLC",
                      "non-finite values on either side are skipped"]
    return v.finish(level="exploration")
