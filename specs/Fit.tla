--------------------------------- MODULE Fit ---------------------------------
(***************************************************************************)
(* C12: fit_circuit as an action on the parameter-store state of           *)
(* ElementParams.tla.                                                      *)
(*                                                                         *)
(* Fit(c) returns a NEW circuit in which every non-fixed parameter has any *)
(* value with lower <= v' <= upper, every fixed parameter keeps its value  *)
(* exactly, limits / fixed flags / labels are unchanged, the table of      *)
(* fitted parameters reports exactly the returned circuit's values, user   *)
(* constraints hold, and the circuit passed in is untouched.  For data     *)
(* generated from the circuit itself (recover = TRUE) the returned values  *)
(* are the generating ones and the pseudo chi-squared vanishes.            *)
(*                                                                         *)
(* Floats are abstracted by comparisons: cmpLo = sign(v' - lower),         *)
(* cmpHi = sign(v' - upper), same = (v' is bitwise the initial value),     *)
(* recovered = |v'/v* - 1| <= 1e-3.                                        *)
(***************************************************************************)
EXTENDS Integers, Sequences, FiniteSets, TLC

ParamOK(p) ==
    /\ p.cmpLo >= 0 /\ p.cmpHi <= 0          \* within its limits
    /\ (p.fixed => p.same)                    \* fixed parameters keep their value exactly
    /\ p.table_ok                             \* the table reports the returned circuit's value (or omits a fixed parameter's error only)
    /\ p.meta_same                            \* limits, fixed flag, label unchanged

FitOK(ev) ==
    /\ \A i \in 1..Len(ev.params) : ParamOK(ev.params[i])
    /\ ev.input_unchanged
    /\ ev.constraints_ok
    /\ ev.names_ok                            \* table keys are exactly the element names of the returned circuit

RecoveryOK(ev) == ev.recover => ((\A i \in 1..Len(ev.params) : ev.params[i].recovered) /\ ev.chi_small)

\* ---- configurations (spec -> code) ------------------------------------------
Families == {"R(RC)", "R(RQ)", "R(RC)(RC)", "R(RC)(RQ)", "R(C[RW])", "RL(RQ)"}
FixedPatterns == {"none", "first", "last", "all-resistors"}
Boxes == {"default", "tight", "value-on-lower-limit", "value-on-upper-limit", "start-far"}
Methods == {"leastsq", "least_squares", "nelder", "lbfgsb", "powell", "cg", "bfgs", "tnc", "slsqp", "auto"}
Weights == {"unity", "modulus", "proportional", "boukamp", "auto"}
Constraints == {"none", "sum", "ratio"}
=============================================================================
