----------------------------- MODULE Impedance -----------------------------
(***************************************************************************)
(* C01: the impedance of a circuit obeys the series/parallel composition   *)
(* laws, however it is evaluated.                                          *)
(*                                                                         *)
(* Impedances are exact Gaussian rationals (re + j im)/den extended with    *)
(* an infinite value.  LawZ is the property itself (pointwise: series add,  *)
(* parallel = reciprocal of the sum of reciprocals, an open branch          *)
(* contributes nothing, a shorted branch shorts the connection, all         *)
(* branches open = open).  ImplZ transcribes what the library computes on   *)
(* a whole frequency vector:                                                *)
(*   Series._impedance    src/pyimpspec/circuit/series.py   l.91-122        *)
(*   Parallel._impedance  src/pyimpspec/circuit/parallel.py l.100-177       *)
(*   _calculate_impedances src/pyimpspec/circuit/base.py    l.100-150       *)
(* including the index bookkeeping for open and shorted paths.              *)
(***************************************************************************)
EXTENDS Integers, Sequences, FiniteSets, TLC

CONSTANTS MaxLeaves, MaxDepth, LeafKinds, FreqMode,
          NestedOpenIsOpen   \* TRUE: a parallel connection whose branches are all open is itself an open
                             \* branch (the repaired library); FALSE: it raises (the pinned tree)

FreqVectors == IF FreqMode = "one" THEN {<<1>>} ELSE {<<1>>, <<2>>, <<1, 2>>, <<2, 1>>}      \* angular frequencies; the harness uses f = w / (2 pi)

VARIABLES stack, wvec, impl, law
vars == <<stack, wvec, impl, law>>

\* ---------------------------------------------------------------------------
\* exact complex arithmetic
\* ---------------------------------------------------------------------------
RECURSIVE Gcd(_, _)
Gcd(a, b) == IF b = 0 THEN a ELSE Gcd(b, a % b)
Abs(x) == IF x < 0 THEN 0 - x ELSE x

Inf == [inf |-> TRUE, re |-> 0, im |-> 0, den |-> 1]
Mk(re, im, den) ==
    LET g0 == Gcd(Gcd(Abs(re), Abs(im)), Abs(den))
        g == IF g0 = 0 THEN 1 ELSE g0
        s == IF den < 0 THEN 0 - 1 ELSE 1
    IN [inf |-> FALSE, re |-> s * (re \div g), im |-> s * (im \div g), den |-> s * (den \div g)]
Zero == Mk(0, 0, 1)
IsZero(z) == ~z.inf /\ z.re = 0 /\ z.im = 0

Add(a, b) == IF a.inf \/ b.inf THEN Inf ELSE Mk(a.re * b.den + b.re * a.den, a.im * b.den + b.im * a.den, a.den * b.den)
Recip(a) == IF a.inf THEN Zero ELSE IF IsZero(a) THEN Inf ELSE Mk(a.re * a.den, (0 - a.im) * a.den, a.re * a.re + a.im * a.im)

\* ---------------------------------------------------------------------------
\* circuits: [t |-> "leaf", kind] | [t |-> "S" | "P", items]
\* ---------------------------------------------------------------------------
Leaf(k) == [t |-> "leaf", kind |-> k, items |-> <<>>]
Con(t, items) == [t |-> t, kind |-> "", items |-> items]

\* leaf impedance at angular frequency w (a positive integer)
LeafZ(k, w) ==
    CASE k = "R0" -> Zero [] k = "Rinf" -> Inf [] k = "R1" -> Mk(1, 0, 1) [] k = "R2" -> Mk(2, 0, 1)
      [] k = "C1" -> Mk(0, 0 - 1, w)      \* 1/(jw)
      [] k = "L1" -> Mk(0, w, 1)          \* jw
      [] k = "L0" -> Zero

\* ---------------------------------------------------------------------------
\* the law (pointwise)
\* ---------------------------------------------------------------------------
RECURSIVE LawZ(_, _), SumLaw(_, _), SumRecipLaw(_, _)
SumLaw(items, w) == IF items = <<>> THEN Zero ELSE Add(LawZ(items[1], w), SumLaw(Tail(items), w))
\* sum of reciprocals over the branches; a shorted branch makes it infinite
SumRecipLaw(items, w) == IF items = <<>> THEN Zero ELSE Add(Recip(LawZ(items[1], w)), SumRecipLaw(Tail(items), w))
LawZ(n, w) ==
    IF n.t = "leaf" THEN LeafZ(n.kind, w)
    ELSE IF n.t = "S" THEN SumLaw(n.items, w)
    ELSE Recip(SumRecipLaw(n.items, w))       \* all open: Recip(0) = Inf; any short: Recip(Inf) = Zero

\* ---------------------------------------------------------------------------
\* what the library computes on a frequency vector: [raise, z]
\* ---------------------------------------------------------------------------
Idx(ws) == 1..Len(ws)
Zeros(ws) == [k \in Idx(ws) |-> Zero]
Ret(z) == [raise |-> FALSE, z |-> z, why |-> ""]
RaiseBecause(ws, why) == [raise |-> TRUE, z |-> Zeros(ws), why |-> why]
Raise(ws) == RaiseBecause(ws, "open")

RECURSIVE ImplZ(_, _), ImplSeries(_, _, _), ImplPar(_, _, _, _, _)
ImplSeries(items, ws, acc) ==
    IF items = <<>> THEN Ret(acc)
    ELSE LET r == ImplZ(items[1], ws) IN
         IF r.raise THEN r ELSE ImplSeries(Tail(items), ws, [k \in Idx(ws) |-> Add(acc[k], r.z[k])])

\* the loop over the paths: shorted = set of shorted indices, paths = kept impedance vectors,
\* nOpen = number of open paths
ImplPar(items, ws, shorted, paths, nOpen) ==
    IF items = <<>>
    THEN IF shorted = Idx(ws) THEN Ret(Zeros(ws))
         ELSE IF paths = <<>>                 \* num_open_paths == len(self._elements)
         THEN (IF NestedOpenIsOpen THEN Ret([k \in Idx(ws) |-> Inf]) ELSE Raise(ws))
         ELSE Ret([k \in Idx(ws) |->
                    IF k \in shorted THEN Zero
                    ELSE LET RECURSIVE S(_)
                             S(ps) == IF ps = <<>> THEN Zero ELSE Add(Recip(ps[1][k]), S(Tail(ps)))
                         IN Recip(S(paths))])
    ELSE LET r == ImplZ(items[1], ws) IN
         IF r.raise THEN r
         ELSE LET infIdx == {k \in Idx(ws) : r.z[k].inf}
                  zeroIdx == {k \in Idx(ws) : IsZero(r.z[k])}
              IN IF infIdx = Idx(ws) THEN ImplPar(Tail(items), ws, shorted, paths, nOpen + 1)
                 ELSE IF infIdx # {} THEN RaiseBecause(ws, "partly-open")     \* infinite at some frequencies only
                 ELSE IF zeroIdx = Idx(ws) THEN Ret(Zeros(ws))
                 ELSE IF zeroIdx # {} /\ (shorted \cup zeroIdx) = Idx(ws) THEN Ret(Zeros(ws))
                 ELSE ImplPar(Tail(items), ws, shorted \cup zeroIdx, Append(paths, r.z), nOpen)

ImplZ(n, ws) ==
    IF n.t = "leaf" THEN Ret([k \in Idx(ws) |-> LeafZ(n.kind, ws[k])])
    ELSE IF n.items = <<>> THEN Ret(Zeros(ws))
    ELSE IF n.t = "S" THEN ImplSeries(n.items, ws, Zeros(ws))
    ELSE ImplPar(n.items, ws, {}, <<>>, 0)

\* _calculate_impedances: an infinite value anywhere in the result is an InfiniteImpedance error
Top(n, ws) ==
    LET r == ImplZ(n, ws) IN
    IF r.raise THEN r ELSE IF \E k \in Idx(ws) : r.z[k].inf THEN Raise(ws) ELSE r

\* the law on a vector, with the same convention for the top level
LawTop(n, ws) ==
    LET z == [k \in Idx(ws) |-> LawZ(n, ws[k])] IN
    IF \E k \in Idx(ws) : z[k].inf THEN Raise(ws) ELSE Ret(z)

\* ---------------------------------------------------------------------------
\* all circuits up to the bounds, grown by a builder (same shape as CircuitBuilder and as the
\* parser's stack): `stack` holds the connections that are still open, the root series first.
\* A state with only the root left and at least one item in it is a complete circuit.
\* ---------------------------------------------------------------------------
RECURSIVE Leaves(_)
Leaves(n) == IF n.t = "leaf" THEN 1
             ELSE LET RECURSIVE Sum(_)
                      Sum(xs) == IF xs = <<>> THEN 0 ELSE Leaves(xs[1]) + Sum(Tail(xs))
                  IN Sum(n.items)
RECURSIVE StackLeaves(_)
StackLeaves(st) == IF st = <<>> THEN 0 ELSE Leaves(st[1]) + StackLeaves(Tail(st))

Top1(st) == st[Len(st)]
WithTop(st, c) == [st EXCEPT ![Len(st)] = c]
Complete == Len(stack) = 1 /\ stack[1].items # <<>>
tree == stack[1]

Eval ==      \* the observation variables follow the tree
    /\ impl' = IF Len(stack') = 1 /\ stack'[1].items # <<>> THEN Top(stack'[1], wvec) ELSE Raise(wvec)
    /\ law' = IF Len(stack') = 1 /\ stack'[1].items # <<>> THEN LawTop(stack'[1], wvec) ELSE Raise(wvec)

AddLeaf(k) ==
    /\ StackLeaves(stack) < MaxLeaves
    /\ stack' = WithTop(stack, [Top1(stack) EXCEPT !.items = Append(@, Leaf(k))])
    /\ UNCHANGED wvec /\ Eval

Open(t) ==
    /\ Len(stack) <= MaxDepth
    /\ StackLeaves(stack) < MaxLeaves
    /\ stack' = Append(stack, Con(t, <<>>))
    /\ UNCHANGED wvec /\ Eval

Close ==
    /\ Len(stack) > 1
    /\ Top1(stack).items # <<>>
    /\ LET c == Top1(stack)
           rest == SubSeq(stack, 1, Len(stack) - 1)
       IN stack' = WithTop(rest, [Top1(rest) EXCEPT !.items = Append(@, c)])
    /\ UNCHANGED wvec /\ Eval

Init ==
    /\ stack = <<Con("S", <<>>)>>
    /\ wvec \in FreqVectors
    /\ impl = Raise(wvec) /\ law = Raise(wvec)
Next == (\E k \in LeafKinds : AddLeaf(k)) \/ (\E t \in {"S", "P"} : Open(t)) \/ Close
Spec == Init /\ [][Next]_vars

\* ---------------------------------------------------------------------------
\* Properties
\* ---------------------------------------------------------------------------
\* The library's vector evaluation is the law at every frequency - with one deliberate deviation
\* of the implementation, named here: a branch of a parallel connection that is infinite at some
\* but not all of the requested frequencies (an exact resonance) makes the whole evaluation raise
\* InfiniteImpedance (parallel.py l.133-139) although the law has a finite value.
PartlyOpen == impl.raise /\ impl.why = "partly-open"
ObeysLaw == Complete => (impl = law \/ PartlyOpen)
\* ... and that deviation is the only way to differ from the law (NOT an invariant: kept as the
\* witness of the known finding, see Impedance_resonance in the harness)
ObeysLawStrict == Complete => (impl.raise = law.raise /\ (~impl.raise => impl.z = law.z))

\* evaluating one frequency at a time gives the same values as evaluating the vector
ArrayEqualsPointwise ==
    Complete =>
    LET pt == [k \in Idx(wvec) |-> Top(tree, <<wvec[k]>>)] IN
    PartlyOpen \/
    (IF \E k \in Idx(wvec) : pt[k].raise THEN impl.raise
     ELSE ~impl.raise /\ \A k \in Idx(wvec) : impl.z[k] = pt[k].z[1])
=============================================================================
