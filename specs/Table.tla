------------------------------- MODULE Table -------------------------------
(***************************************************************************)
(* C06: delimited text tables.  Column detection, row extraction and sweep *)
(* splitting of src/pyimpspec/data/data_set.py                             *)
(*   Detect       _detect_columns       l.699-764                          *)
(*   UseCartesian _extract_data         l.767-850  (which column pair)     *)
(*   Split        _split_sweeps         l.853-911                          *)
(* and the space of documented table conventions: a state is one           *)
(* (header row, file options) configuration; the harness writes it as a    *)
(* real file and parses it with parse_data.                                *)
(*                                                                         *)
(* Header cells are lower-case strings (TLC can concatenate and slice      *)
(* strings); the letter case is a file option applied by the harness.      *)
(***************************************************************************)
EXTENDS Integers, Sequences, FiniteSets, TLC

CONSTANTS Layout,     \* "cartesian" (f, re, im) | "polar" (f, mod, phase) | "five" (all columns) | "five-marked" (all columns, first alias, every sign marker) | "instrument"
          OptMode,    \* "single": one file-option deviation at a time | "product"
          Reduce      \* "none" | "nosuffix" (no unit suffixes) | "few" (two aliases per role, no suffixes)

VARIABLES hdr, opts, det
vars == <<hdr, opts, det>>

\* ---------------------------------------------------------------------------
\* the alias table, in the order the code tries keys and alternatives
\* ---------------------------------------------------------------------------
Keys == <<"frequency", "imaginary", "real", "magnitude", "phase">>
Aliases(k) ==
    CASE k = "frequency" -> <<"frequency", "freq", "f">>
      [] k = "imaginary" -> <<"z\"", "z''", "z im", "z_im", "zim", "imaginary", "imag", "im">>
      [] k = "real"      -> <<"z'", "z re", "z_re", "zre", "real", "re">>
      [] k = "magnitude" -> <<"|z|", "z", "magnitude", "modulus", "mag", "mod">>
      [] k = "phase"     -> <<"phase", "phz", "phi">>

StartsWith(s, p) == Len(p) <= Len(s) /\ SubSeq(s, 1, Len(p)) = p
Minus == "-"
UMinus == "−"        \* U+2212

\* does lower-cased, stripped cell `col` name key k?  returns [hit, neg]
Matches(col, k) ==
    LET as == Aliases(k)
        hit(a) == StartsWith(col, a) \/ StartsWith(col, Minus \o a) \/ StartsWith(col, UMinus \o a)
    IN \E i \in 1..Len(as) : hit(as[i])

\* _detect_columns: columns in order; for each, the first still unassigned key (in Keys order) that matches
RECURSIVE DetectFrom(_, _, _)
DetectFrom(cols, i, found) ==      \* found: Seq of [key, col, neg]
    IF i > Len(cols) THEN found
    ELSE LET assigned == {found[j].key : j \in 1..Len(found)}
             cands == SelectSeq(Keys, LAMBDA k : k \notin assigned /\ Matches(cols[i], k))
         IN IF cands = <<>> THEN DetectFrom(cols, i + 1, found)
            ELSE DetectFrom(cols, i + 1, Append(found, [key |-> cands[1], col |-> i,
                                                        neg |-> StartsWith(cols[i], Minus) \/ StartsWith(cols[i], UMinus)]))
Detect(cols) == DetectFrom(cols, 1, <<>>)

\* _detect_columns / _extract_data outcome for a header: "ValueError" (< 3 columns found),
\* "KeyError" (no frequency), "Unsupported" (neither pair complete), "cartesian", "polar"
Outcome(found) ==
    LET ks == {found[j].key : j \in 1..Len(found)} IN
    IF Cardinality(ks) < 3 THEN "ValueError"
    ELSE IF "frequency" \notin ks THEN "KeyError"
    ELSE IF {"real", "imaginary"} \subseteq ks THEN "cartesian"
    ELSE IF {"magnitude", "phase"} \subseteq ks THEN "polar"
    ELSE "Unsupported"

\* ---------------------------------------------------------------------------
\* _split_sweeps on a sequence of frequencies (integers here)
\* ---------------------------------------------------------------------------
\* length of the first sweep, or 0 for "two equal neighbours" (ValueError)
RECURSIVE FirstSweep(_, _, _)
FirstSweep(f, i, dec) ==
    IF i > Len(f) THEN Len(f)
    ELSE IF f[i - 1] = f[i] THEN 0
    ELSE IF (dec /\ f[i - 1] > f[i]) \/ (~dec /\ f[i - 1] < f[i]) THEN FirstSweep(f, i + 1, dec)
    ELSE i - 1
RECURSIVE SplitWith(_, _)
SplitWith(f, dec) ==
    IF f = <<>> THEN <<>>
    ELSE LET n == FirstSweep(f, 2, dec) IN
         IF n = 0 THEN <<<<0>>>>          \* marker: ValueError
         ELSE LET rest == SplitWith(SubSeq(f, n + 1, Len(f)), dec) IN
              IF rest = <<<<0>>>> THEN rest ELSE <<SubSeq(f, 1, n)>> \o rest
Split(f) == SplitWith(f, Len(f) < 2 \/ f[1] > f[2])

\* what the documentation promises: consecutive strictly monotonic sweeps in one direction, each
\* starting beyond the end of the previous one, come back as exactly those sweeps
RECURSIVE Concat(_)
Concat(ss) == IF ss = <<>> THEN <<>> ELSE ss[1] \o Concat(Tail(ss))
Monotonic(s, dec) == \A i \in 1..(Len(s) - 1) : IF dec THEN s[i] > s[i + 1] ELSE s[i] < s[i + 1]
SweepSets(maxlen, maxval) ==
    LET S == UNION {[1..n -> 1..maxval] : n \in 1..maxlen} IN
    {ss \in UNION {[1..k -> S] : k \in 1..3} : TRUE}
SplitOK ==
    \A dec \in BOOLEAN : \A ss \in SweepSets(3, 3) :
        ((\A i \in 1..Len(ss) : Monotonic(ss[i], dec))
          /\ (\A i \in 1..(Len(ss) - 1) : IF dec THEN ss[i + 1][1] > ss[i][Len(ss[i])] ELSE ss[i + 1][1] < ss[i][Len(ss[i])])
          /\ Len(ss[1]) >= 2)          \* the direction is read off the first two rows
        => Split(Concat(ss)) = ss
SplitTotal ==       \* every sequence is partitioned or refused, never an index error
    \A f \in UNION {[1..n -> 1..3] : n \in 1..5} : LET r == Split(f) IN r = <<<<0>>>> \/ Concat(r) = f

\* ---------------------------------------------------------------------------
\* configurations
\* ---------------------------------------------------------------------------
\* instrument text layouts: the column convention is fixed by the format (f, Z', +-Z'')
Instruments == {"mpt", "i2b", "p00", "dfr", "dta", "z"}
Roles == CASE Layout \in {"cartesian", "instrument"} -> {"frequency", "real", "imaginary"}
           [] Layout = "polar" -> {"frequency", "magnitude", "phase"}
           [] Layout \in {"five", "five-marked"} -> {"frequency", "real", "imaginary", "magnitude", "phase"}
Perms(S) == {p \in [1..Cardinality(S) -> S] : \A i, j \in 1..Cardinality(S) : i # j => p[i] # p[j]}
Markers(k) == IF k \in {"real", "imaginary", "phase"} THEN {"", Minus, UMinus} ELSE {""}
Suffixes == {"", " (ohm)", "/hz"}
AliasChoices(k) == IF Layout = "five-marked" THEN 1..1 ELSE IF Layout = "five" \/ Reduce = "few" THEN 1..2 ELSE 1..Len(Aliases(k))

Cell(c) == c.marker \o Aliases(c.role)[c.alias] \o c.suffix

\* num: "full" = every number carries a decimal mark; "short" = whole numbers are written without one (10000, not 10000.0),
\* as spreadsheet exports do - with a decimal comma the rows then hold different numbers of commas
BaseOpts == [sep |-> ",", dec |-> ".", order |-> "desc", sweeps |-> 1, case |-> "lower", points |-> 4, num |-> "full"]
FileOpts ==
    IF OptMode = "single"
    THEN {BaseOpts, [BaseOpts EXCEPT !.sep = "tab"], [BaseOpts EXCEPT !.sep = ";", !.dec = ","], [BaseOpts EXCEPT !.sep = "space"],
          [BaseOpts EXCEPT !.order = "asc"], [BaseOpts EXCEPT !.sweeps = 2], [BaseOpts EXCEPT !.sweeps = 3, !.order = "asc"],
          [BaseOpts EXCEPT !.case = "upper"], [BaseOpts EXCEPT !.case = "title"], [BaseOpts EXCEPT !.points = 1],
          [BaseOpts EXCEPT !.num = "short"], [BaseOpts EXCEPT !.sep = ";", !.dec = ",", !.num = "short"],
          [BaseOpts EXCEPT !.sep = "tab", !.dec = ",", !.num = "short", !.order = "asc"],
          [BaseOpts EXCEPT !.sep = "space", !.dec = ",", !.num = "short", !.sweeps = 2]}
    ELSE {o \in [sep : {",", "tab", ";", "space"}, dec : {".", ","}, order : {"desc", "asc"}, sweeps : 1..3,
                 case : {"lower", "upper", "title"}, points : {1, 2, 4}, num : {"full", "short"}] :
            /\ (o.dec = "," => o.sep # ",")
            /\ (o.points = 1 => o.sweeps = 1)}

CellChoices(k) ==
    {[role |-> k, alias |-> a, marker |-> m, suffix |-> sf] :
        a \in AliasChoices(k), m \in (IF Layout = "five" THEN {""} ELSE Markers(k)),
        sf \in (IF Layout \in {"five", "five-marked"} \/ Reduce # "none" THEN {""} ELSE Suffixes)}
RECURSIVE Headers(_, _)
Headers(p, i) ==      \* all header rows for the column order p, from column i on
    IF i > Len(p) THEN {<<>>} ELSE {<<c>> \o rest : c \in CellChoices(p[i]), rest \in Headers(p, i + 1)}

InstrumentOpts ==
    {[BaseOpts EXCEPT !.sep = fmt, !.order = o, !.sweeps = sw, !.points = n] :
        fmt \in Instruments, o \in {"desc", "asc"}, sw \in 1..2, n \in {1, 2, 4}}

Init ==
    /\ hdr \in (IF Layout = "instrument"
                THEN {[i \in 1..3 |-> [role |-> <<"frequency", "real", "imaginary">>[i], alias |-> 1, marker |-> "", suffix |-> ""]]}
                ELSE UNION {Headers(p, 1) : p \in Perms(Roles)})
    /\ opts \in (IF Layout = "instrument" THEN {o \in InstrumentOpts : o.points = 1 => o.sweeps = 1} ELSE FileOpts)
    \* the documented contract: header text never contains the separator itself, and space- or
    \* semicolon-separated files use space-free headers (the separator fallback of parse_csv tries
    \* tab, blank, semicolon, comma in that order)
    /\ \A i \in 1..Len(hdr) : (opts.sep \in {"space", ";"} => (hdr[i].suffix # " (ohm)" /\ Aliases(hdr[i].role)[hdr[i].alias] \notin {"z im", "z re"}))
    /\ det = Detect([i \in 1..Len(hdr) |-> Cell(hdr[i])])
Next == FALSE /\ UNCHANGED vars
Spec == Init /\ [][Next]_vars

\* ---------------------------------------------------------------------------
\* Properties on the model
\* ---------------------------------------------------------------------------
\* every column is detected as the role the writer intended, with the writer's sign marker
DetectedAsIntended ==
    /\ Len(det) = Len(hdr)
    /\ \A j \in 1..Len(det) : det[j].key = hdr[det[j].col].role /\ det[j].neg = (hdr[det[j].col].marker # "")
UsesExpectedPair == Outcome(det) = (IF Layout = "polar" THEN "polar" ELSE "cartesian")
=============================================================================
