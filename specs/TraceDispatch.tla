---------------------------- MODULE TraceDispatch ----------------------------
(***************************************************************************)
(* Validates recorded parse_data calls (code -> spec) against Dispatch.tla.*)
(* TRACE_FILE: JSON list of traces; a trace is                             *)
(*   [cfg |-> [content, ext, fmt],                                         *)
(*    events |-> << [ev |-> "call", p |-> parser id] ...,                  *)
(*                  [ev |-> "end", outcome |-> id | "UnsupportedFileFormat" *)
(*                                 | "error", right |-> BOOLEAN] >>]        *)
(* Resolve is a silent step (nothing is logged for it); every parser call  *)
(* the wrappers saw must be the next call the model allows, and the final  *)
(* outcome must be the model's; when a parser won, its data must be the    *)
(* written spectrum.  Register tid holds the longest matched prefix.       *)
(***************************************************************************)
EXTENDS Dispatch, Json, IOUtils, TLCExt

Traces == JsonDeserialize(IOEnv.TRACE_FILE)
N == Len(Traces)
VARIABLES tid, l
tvars == <<cfg, pc, tried, calls, outcome, tid, l>>
Ev == Traces[tid].events[l]

TraceInit ==
    /\ tid \in 1..N /\ l = 1
    /\ cfg = [content |-> Traces[tid].cfg.content, ext |-> Traces[tid].cfg.ext, fmt |-> Traces[tid].cfg.fmt]
    /\ pc = "resolve" /\ tried = {} /\ calls = <<>> /\ outcome = ""

Silent == Resolve /\ UNCHANGED <<tid, l>>
Call ==
    /\ l <= Len(Traces[tid].events) /\ Ev.ev = "call"
    /\ (Primary \/ CsvRetry \/ BruteTry(Ev.p) \/ BruteLast)
    /\ calls'[Len(calls')] = Ev.p
    /\ l' = l + 1 /\ tid' = tid
End ==
    /\ l <= Len(Traces[tid].events) /\ Ev.ev = "end"
    /\ pc = "done" /\ outcome = Ev.outcome
    /\ (Parsed => Ev.right)
    /\ l' = l + 1 /\ tid' = tid
    /\ UNCHANGED vars
TraceSpec == TraceInit /\ [][Silent \/ Call \/ End]_tvars

ASSUME \A t \in 1..N : TLCSet(t, 0)
Track == (l - 1 > TLCGet(tid) => TLCSet(tid, l - 1))
Report ==
    /\ \A t \in 1..N : (TLCGet(t) < Len(Traces[t].events) => PrintT(<<"REJECT", t, TLCGet(t), Len(Traces[t].events)>>))
    /\ PrintT(<<"VALIDATED", N>>)
==============================================================================
