--------------------------------- MODULE Cli ---------------------------------
(***************************************************************************)
(* C19: the command-line interface reports what the API computes.          *)
(*                                                                         *)
(* ParseCmd   `pyimpspec parse FILE [-lpf c] [-hpf c] [-ei i ...]` is      *)
(*            parse_data, then per data set low_pass, high_pass, set_mask  *)
(*            (the actions of DataSet.tla, cli/utility.py apply_filters    *)
(*            l.77-96) and prints the unmasked view: Visible is the model  *)
(*            value of the printed table (point ids, ranks as in           *)
(*            DataSet.tla: point p has frequency 10^p = rank 2p).          *)
(* Specifier  `<ID:key=value,...>` (cli/utility.py _parse_identity         *)
(*            l.253-275): the kwargs start at the LAST colon if it lies    *)
(*            after the last closing bracket of any kind.                  *)
(* The other commands (circuit --simulate, fit, drt) are enumerated as     *)
(* configurations; the harness compares their output with the API call     *)
(* the configuration denotes.                                              *)
(***************************************************************************)
EXTENDS Integers, Sequences, FiniteSets, TLC

CONSTANTS N, Mode       \* N points in the input file; Mode: which family of configurations this run enumerates

VARIABLES cfg, expect
vars == <<cfg, expect>>

\* ---- parse command -----------------------------------------------------------
\* stored order is descending: position i (0-based) holds point N - i
IdAt(i) == N - i
Visible(lpf, hpf, excl) ==      \* cut-offs as half-decade ranks, 0 = filter off
    SelectSeq([i \in 1..N |-> IdAt(i - 1)],
              LAMBDA p : /\ ~(lpf > 0 /\ 2 * p > lpf)
                         /\ ~(hpf > 0 /\ 2 * p < hpf)
                         /\ (N - p) \notin excl)
\* apply_filters raises ValueError as soon as a stage leaves no point
AfterFilters(lpf, hpf) == Visible(lpf, hpf, {})
ParseOutcome(lpf, hpf, excl) ==
    IF AfterFilters(lpf, hpf) = <<>> \/ Visible(lpf, hpf, excl) = <<>> THEN [err |-> "ValueError", ids |-> <<>>]
    ELSE [err |-> "", ids |-> Visible(lpf, hpf, excl)]

ParseConfigs ==
    [cmd : {"parse"}, lpf : 0..(2 * N + 1), hpf : 0..(2 * N + 1), excl : SUBSET (0..N), fmt : {"csv", "json", "md"}, order : {"desc", "asc"}]

\* ---- mock-data specifiers ----------------------------------------------------------
Idents == {"CIRCUIT_1", "CIRCUIT_5", "R(RC)", "R{R=50:a}(RC)", "R{:lbl}", "[R{:x}C]", "R{:a}C{:b}", "(R{:p}C)"}
\* position (1-based) of the last colon / last closing bracket in a string, 0 if none
RECURSIVE LastOf(_, _, _)
LastOf(s, S, i) == IF i = 0 THEN 0 ELSE IF SubSeq(s, i, i) \in S THEN i ELSE LastOf(s, S, i - 1)
SplitPoint(s) ==
    LET c == LastOf(s, {":"}, Len(s))
        b == LastOf(s, {"}", "]", ")"}, Len(s))
    IN IF c > 0 /\ c > b THEN c ELSE 0          \* 0: the whole string is the identifier
KwText(kw) ==       \* kw: a sequence of "key=value" strings
    IF kw = <<>> THEN ""
    ELSE LET RECURSIVE J(_)
             J(q) == IF Len(q) = 1 THEN q[1] ELSE q[1] \o "," \o J(Tail(q))
         IN ":" \o J(kw)
KwChoices == {<<>>, <<"noise=0">>, <<"seed=3">>, <<"num_per_decade=2">>, <<"noise=0.5", "seed=7">>,
              <<"log_max_f=3", "log_min_f=1", "num_per_decade=3">>, <<"log_min_f=-1", "num_per_decade=2">>,
              <<"noise=5e-2", "seed=11", "num_per_decade=2">>, <<"log_max_f=2.5", "log_min_f=-0.5", "num_per_decade=4">>}
SpecConfigs == [cmd : {"spec"}, ident : Idents, kw : KwChoices]
SpecText(c) == c.ident \o KwText(c.kw)
\* the split recovers the identifier for every identifier/kwargs combination
SplitRecovers(c) ==
    LET s == SpecText(c)
        k == SplitPoint(s)
    IN IF c.kw = <<>> THEN (k = 0 \/ FALSE) ELSE (k = Len(c.ident) + 1)

\* ---- other commands: configurations only ---------------------------------------------
SimConfigs == [cmd : {"simulate"}, cdc : {"R{R=10}C{C=1}", "R{R=2}(R{R=3}C{C=1e-3})", "R(RC)(RQ)", "RL(RW)"}, fmin : {1, 2}, decades : 1..3, npd : {1, 3}, fmt : {"csv", "json"}]
FitConfigs == [cmd : {"fit"}, cdc : {"R(RC)", "R(RC)(RQ)"}, method : {"leastsq", "least_squares", "nelder"}, weight : {"boukamp", "modulus", "unity"},
               nfev : {50, 200}, fmt : {"csv", "json"}]
DrtConfigs == [cmd : {"drt"}, method : {"tr-nnls", "lm"}, mode : {"real", "imaginary"}, fmt : {"csv"}]

Configs ==
    CASE Mode = "parse" -> ParseConfigs [] Mode = "spec" -> SpecConfigs [] Mode = "simulate" -> SimConfigs
      [] Mode = "fit" -> FitConfigs [] Mode = "drt" -> DrtConfigs

Init ==
    /\ cfg \in Configs
    /\ expect = IF cfg.cmd = "parse" THEN ParseOutcome(cfg.lpf, cfg.hpf, cfg.excl)
                ELSE IF cfg.cmd = "spec" THEN [err |-> "", ids |-> <<SplitPoint(SpecText(cfg))>>]
                ELSE [err |-> "", ids |-> <<>>]
Next == FALSE /\ UNCHANGED vars
Spec == Init /\ [][Next]_vars

\* ---- properties on the model --------------------------------------------------------
\* the printed table is a sub-sequence of the stored order, filters only remove points
ParseSound == cfg.cmd = "parse" => \A i \in 1..Len(expect.ids) : expect.ids[i] \in 1..N
ParseDescending == cfg.cmd = "parse" => \A i \in 1..(Len(expect.ids) - 1) : expect.ids[i] > expect.ids[i + 1]
SpecifierSplits == cfg.cmd = "spec" => SplitRecovers(cfg)
=============================================================================
