--------------------------- MODULE ElementParams ---------------------------
(***************************************************************************)
(* The parameter store of pyimpspec.circuit.base.Element as a state        *)
(* machine (properties C14, C03 "limits moved by setter sequences", C12    *)
(* "Fit").                                                                 *)
(*                                                                         *)
(* Floats are abstracted to ranks on a small ordered grid 1..K with        *)
(* NegInf = 0 and PosInf = K+1;  NaN and two non-numeric arguments are     *)
(* distinguished codes.  The class defaults sit at fixed ranks             *)
(*   default lower = 3 (or NegInf), default value = 4, default upper = 5   *)
(*   (or PosInf)                                                           *)
(* so that "limits moved above / below the class defaults" is reachable.   *)
(* The harness owns rank -> float per (element class, parameter).          *)
(*                                                                         *)
(* One action per public method (src/pyimpspec/circuit/base.py):           *)
(*   SetValues        Element.set_values         l.1028                    *)
(*   SetLower         Element.set_lower_limits   l.787                     *)
(*   SetUpper         Element.set_upper_limits   l.930                     *)
(*   SetFixed         Element.set_fixed          l.651                     *)
(*   SetLabel         Element.set_label          l.428                     *)
(*   ResetParameter   Element.reset_parameter    l.549                     *)
(*   ResetParameters  Element.reset_parameters   l.531                     *)
(*   Copy / DeepCopy  Element.__copy__/__deepcopy__ l.204                  *)
(*   PrintParse       Element.to_string(12) -> parse_cdc                   *)
(* Multi-key updates are applied pair by pair in argument order and stop   *)
(* at the first refused pair, as the code does.                            *)
(***************************************************************************)
EXTENDS Integers, Sequences, FiniteSets, TLC

CONSTANTS
    P,          \* parameter keys of the modelled class, e.g. {"x"} or {"x", "y"}
    Shape,      \* "FF" finite/finite default limits, "FI" finite/+inf, "II" -inf/+inf
    FixedByDefault,            \* the class's default fixed flag
    ValArgs, LoArgs, HiArgs,   \* argument values offered to set_values / set_lower_limits / set_upper_limits
    LabelArgs,  \* label arguments offered to set_label (codes, see LabelOf)
    MaxHist, Enabled, MaxPairs, Record

K == 7                \* finite ranks 1..K
NegInf == 0
PosInf == K + 1
NaN == 100          \* float("nan")
Str == 200          \* a string that float() cannot convert  -> ValueError
NoneV == 201        \* None                                   -> TypeError
Unknown == "zz"     \* a key the class does not have

VARIABLES cur, oth, hist, steps
vars == <<cur, oth, hist, steps>>

None == [none |-> TRUE]

\* class defaults
DLo  == [k \in P |-> IF Shape = "II" THEN NegInf ELSE 3]
DVal == [k \in P |-> 4]
DHi  == [k \in P |-> IF Shape = "FF" THEN 5 ELSE PosInf]
DFx  == [k \in P |-> FixedByDefault]

\* set_label arguments: code |-> what is stored / which error
LabelOf(c) ==
    CASE c = "empty"    -> [stored |-> "", err |-> ""]
      [] c = "a"        -> [stored |-> "a", err |-> ""]
      [] c = "b2"       -> [stored |-> "b2", err |-> ""]
      [] c = "padded"   -> [stored |-> "c", err |-> ""]            \* " c " is stripped
      [] c = "digits"   -> [stored |-> "", err |-> "ValueError"]   \* "12"
      [] c = "nonascii" -> [stored |-> "", err |-> "ValueError"]
      [] c = "nonstr"   -> [stored |-> "", err |-> "TypeError"]    \* 5

\* IEEE comparisons: anything involving NaN is false.
IsNum(v) == v \in (NegInf..PosInf)
Lt(a, b) == IsNum(a) /\ IsNum(b) /\ a < b
Le(a, b) == IsNum(a) /\ IsNum(b) /\ a <= b
Ge(a, b) == Le(b, a)
Gt(a, b) == Lt(b, a)

Fresh == [val |-> DVal, lo |-> DLo, hi |-> DHi, fx |-> DFx, label |-> ""]

InLimits(e) == \A k \in P : Le(e.lo[k], e.val[k]) /\ Le(e.val[k], e.hi[k])
Finite(e) == \A k \in P : e.val[k] \in 1..K

\* ---------------------------------------------------------------------------
\* One (key, value) pair of each setter.  Result: [e |-> element', err |-> "" | error class]
\* ---------------------------------------------------------------------------
Ok(e) == [e |-> e, err |-> ""]
Err(e, c) == [e |-> e, err |-> c]

Conv(v) == IF v = Str THEN "ValueError" ELSE IF v = NoneV THEN "TypeError" ELSE ""

SetValue1(e, k, v) ==
    IF k \notin P THEN Err(e, "KeyError")
    ELSE IF Conv(v) # "" THEN Err(e, Conv(v))
    ELSE Ok([e EXCEPT !.val[k] = v])

\* The new lower limit must be a number strictly below the current upper limit; a value
\* below the new limit is moved onto it.
SetLower1(e, k, v) ==
    IF k \notin P THEN Err(e, "KeyError")
    ELSE IF Conv(v) # "" THEN Err(e, Conv(v))
    ELSE IF v = NaN THEN Err(e, "ValueError")
    ELSE IF Ge(v, e.hi[k]) THEN Err(e, "ValueError")
    ELSE Ok([e EXCEPT !.lo[k] = v, !.val[k] = IF Lt(@, v) THEN v ELSE @])

SetUpper1(e, k, v) ==
    IF k \notin P THEN Err(e, "KeyError")
    ELSE IF Conv(v) # "" THEN Err(e, Conv(v))
    ELSE IF v = NaN THEN Err(e, "ValueError")
    ELSE IF Le(v, e.lo[k]) THEN Err(e, "ValueError")
    ELSE Ok([e EXCEPT !.hi[k] = v, !.val[k] = IF Gt(@, v) THEN v ELSE @])

\* set_fixed: argument codes "true" / "false", or "int" (1: not a boolean) -> TypeError
SetFixed1(e, k, v) ==
    IF k \notin P THEN Err(e, "KeyError")
    ELSE IF v = "int" THEN Err(e, "TypeError")
    ELSE Ok([e EXCEPT !.fx[k] = (v = "true")])

Apply1(op, e, k, v) ==
    CASE op = "val" -> SetValue1(e, k, v)
      [] op = "lo"  -> SetLower1(e, k, v)
      [] op = "hi"  -> SetUpper1(e, k, v)
      [] op = "fx"  -> SetFixed1(e, k, v)

RECURSIVE ApplyPairs(_, _, _)
ApplyPairs(op, e, pairs) ==
    IF pairs = <<>> THEN Ok(e)
    ELSE LET r == Apply1(op, e, pairs[1][1], pairs[1][2])
         IN IF r.err # "" THEN r ELSE ApplyPairs(op, r.e, Tail(pairs))

\* ---------------------------------------------------------------------------
\* Implementation-level composition used by copy / reset / parse
\* (Element._set_limits): the lower limits that are about to be replaced are first moved
\* out of the way, then upper limits, then lower limits are applied.
\* ---------------------------------------------------------------------------
KeySeq == CHOOSE s \in [1..Cardinality(P) -> P] : \A i, j \in 1..Cardinality(P) : i # j => s[i] # s[j]
\* the pairs <<k, f[k]>> for k in keys, in the class's key order
PairsOf(f, keys) == SelectSeq([i \in 1..Cardinality(P) |-> <<KeySeq[i], f[KeySeq[i]]>>], LAMBDA kv : kv[1] \in keys)

SetLimitsImpl(e, lo, hi, keys) ==
    LET r1 == ApplyPairs("lo", e, PairsOf([k \in P |-> NegInf], keys))
        r2 == IF r1.err # "" THEN r1 ELSE ApplyPairs("hi", r1.e, PairsOf(hi, keys))
        r3 == IF r2.err # "" THEN r2 ELSE ApplyPairs("lo", r2.e, PairsOf(lo, keys))
    IN r3

\* The order the pinned tree used: lower limits first, then upper limits.
SetLimitsLowerFirst(e, lo, hi, keys) ==
    LET r1 == ApplyPairs("lo", e, PairsOf(lo, keys))
        r2 == IF r1.err # "" THEN r1 ELSE ApplyPairs("hi", r1.e, PairsOf(hi, keys))
    IN r2

\* Element.__copy__: a fresh instance, limits, values, fixed flags, label.
CopyImpl(e, Limits(_, _, _, _)) ==
    LET r1 == Limits(Fresh, e.lo, e.hi, P)
        r2 == IF r1.err # "" THEN r1 ELSE ApplyPairs("val", r1.e, PairsOf(e.val, P))
        r3 == IF r2.err # "" THEN r2 ELSE ApplyPairs("fx", r2.e, PairsOf([k \in P |-> IF e.fx[k] THEN "true" ELSE "false"], P))
    IN IF r3.err # "" THEN r3 ELSE Ok([r3.e EXCEPT !.label = e.label])

\* Element.reset_parameters(keys): values, then limits, then fixed flags of those keys.
ResetImpl(e, keys) ==
    LET e1 == [e EXCEPT !.val = [k \in P |-> IF k \in keys THEN DVal[k] ELSE e.val[k]]]
        r  == SetLimitsImpl(e1, DLo, DHi, keys)
    IN IF r.err # "" THEN r
       ELSE Ok([r.e EXCEPT !.fx = [k \in P |-> IF k \in keys THEN DFx[k] ELSE e.fx[k]]])

\* ---------------------------------------------------------------------------
\* Actions
\* ---------------------------------------------------------------------------
Step(a) == a \in Enabled /\ steps < MaxHist /\ steps' = steps + 1
Log(rec) == IF Record THEN Append(hist, rec @@ [p |-> <<cur', oth'>>]) ELSE hist

\* Argument lists: 1..MaxPairs pairs with distinct keys; `form` says how they are passed.
PairSeqs(Args) ==
    {s \in UNION {[1..n -> P \X Args] : n \in 1..MaxPairs} :
        \A i, j \in 1..Len(s) : i # j => s[i][1] # s[j][1]}

Setter(name, Op, Args) ==
    /\ Step(name)
    /\ \E pairs \in PairSeqs(Args), form \in {"kw", "pos"} :
        LET r == ApplyPairs(Op, cur, pairs) IN
        /\ cur' = r.e
        /\ oth' = oth
        /\ hist' = Log([a |-> name, form |-> form, pairs |-> pairs, r |-> r.err])

\* Malformed calls of a setter: nothing may change.
\*   odd      an odd number of positional arguments                    -> ValueError
\*   overlap  the same key positionally and as a keyword               -> KeyError
\*   unknown  a valid pair followed by a key the class does not have   -> first applied, then KeyError
SetterBad(name, Op, good) ==
    /\ Step(name)
    /\ \E kind \in {"odd", "overlap", "unknown"} : \E k \in P :
        LET r == IF kind = "unknown" THEN ApplyPairs(Op, cur, <<<<k, good>>, <<Unknown, good>>>>) ELSE Err(cur, IF kind = "odd" THEN "ValueError" ELSE "KeyError") IN
        /\ cur' = r.e
        /\ oth' = oth
        /\ hist' = Log([a |-> name, form |-> kind, pairs |-> <<<<k, good>>>>, r |-> r.err])

SetValues == Setter("SetValues", "val", ValArgs)
SetLower  == Setter("SetLower", "lo", LoArgs)
SetUpper  == Setter("SetUpper", "hi", HiArgs)
SetFixed  == Setter("SetFixed", "fx", {"true", "false", "int"})
SetValuesBad == SetterBad("SetValuesBad", "val", 4)
SetLowerBad  == SetterBad("SetLowerBad", "lo", NegInf)
SetUpperBad  == SetterBad("SetUpperBad", "hi", PosInf)
SetFixedBad  == SetterBad("SetFixedBad", "fx", "true")

\* Labels: [arg, stored, err]; the harness owns the concrete strings.
SetLabel ==
    /\ Step("SetLabel")
    /\ \E c \in LabelArgs : LET l == LabelOf(c) IN
        /\ cur' = IF l.err = "" THEN [cur EXCEPT !.label = l.stored] ELSE cur
        /\ oth' = oth
        /\ hist' = Log([a |-> "SetLabel", arg |-> c, r |-> l.err])

ResetParameter ==
    /\ Step("ResetParameter")
    /\ \E k \in P \cup {Unknown} :
        LET r == IF k \in P THEN ResetImpl(cur, {k}) ELSE Err(cur, "KeyError") IN
        /\ cur' = r.e
        /\ oth' = oth
        /\ hist' = Log([a |-> "ResetParameter", k |-> k, r |-> r.err])

ResetParameters ==
    /\ Step("ResetParameters")
    /\ \E keys \in (SUBSET P) :      \* {} = no argument = every parameter
        LET r == ResetImpl(cur, IF keys = {} THEN P ELSE keys) IN
        /\ cur' = r.e
        /\ oth' = oth
        /\ hist' = Log([a |-> "ResetParameters", keys |-> keys, r |-> r.err])

\* copy.copy / copy.deepcopy of an element whose values lie within their limits: succeeds,
\* equal to the original; the original stays alive as `oth`.
Copy ==
    /\ Step("Copy")
    /\ InLimits(cur)
    /\ \E deep \in BOOLEAN :
        /\ cur' = cur /\ oth' = cur
        /\ hist' = Log([a |-> "Copy", deep |-> deep, r |-> ""])

\* to_string(decimals) then parse_cdc: an equal element (finite values within limits).
PrintParse ==
    /\ Step("PrintParse")
    /\ InLimits(cur) /\ Finite(cur)
    /\ cur' = cur /\ oth' = cur
    /\ hist' = Log([a |-> "PrintParse", r |-> ""])

Swap ==
    /\ Step("Swap")
    /\ oth # None /\ oth # cur
    /\ cur' = oth /\ oth' = cur
    /\ hist' = Log([a |-> "Swap", r |-> ""])

Init == cur = Fresh /\ oth = None /\ hist = <<>> /\ steps = 0

Next ==
    \/ SetValues \/ SetLower \/ SetUpper \/ SetFixed
    \/ SetValuesBad \/ SetLowerBad \/ SetUpperBad \/ SetFixedBad
    \/ SetLabel \/ ResetParameter \/ ResetParameters
    \/ Copy \/ PrintParse \/ Swap

Spec == Init /\ [][Next]_vars

\* ---------------------------------------------------------------------------
\* Properties (C14)
\* ---------------------------------------------------------------------------
Live == {cur} \cup (IF oth = None THEN {} ELSE {oth})

\* a lower limit is always strictly below the upper limit
LoLtHi == \A e \in Live : \A k \in P : Lt(e.lo[k], e.hi[k])

\* limits are numbers (never NaN), lower never +inf, upper never -inf
LimitsAreNumbers == \A e \in Live : \A k \in P : e.lo[k] \in NegInf..K /\ e.hi[k] \in 1..PosInf

\* the implementation's way of copying / resetting never refuses in a reachable state
CopyNeverRefused == \A e \in Live : InLimits(e) => CopyImpl(e, SetLimitsImpl) = Ok(e)
ResetNeverRefused ==
    \A e \in Live : \A keys \in (SUBSET P) \ {{}} :
        LET r == ResetImpl(e, keys) IN
        /\ r.err = ""
        /\ \A k \in keys : r.e.val[k] = DVal[k] /\ r.e.lo[k] = DLo[k] /\ r.e.hi[k] = DHi[k] /\ r.e.fx[k] = DFx[k]
        /\ \A k \in P \ keys : r.e.val[k] = e.val[k] /\ r.e.lo[k] = e.lo[k] /\ r.e.hi[k] = e.hi[k] /\ r.e.fx[k] = e.fx[k]

\* NOT an invariant (kept to show why the order matters; see ElementParams_lowerfirst.cfg):
LowerFirstCopyNeverRefused == \A e \in Live : InLimits(e) => CopyImpl(e, SetLimitsLowerFirst) = Ok(e)

\* moving a limit past the value moves the value onto the limit; a refused pair changes nothing
ClampAndRefusal ==
    \A e \in Live : \A k \in P : \A v \in LoArgs \cup HiArgs :
        /\ LET r == SetLower1(e, k, v) IN
             IF r.err = "" THEN r.e.lo[k] = v /\ (Lt(e.val[k], v) => r.e.val[k] = v) /\ (~Lt(e.val[k], v) => r.e.val[k] = e.val[k])
             ELSE r.e = e
        /\ LET r == SetUpper1(e, k, v) IN
             IF r.err = "" THEN r.e.hi[k] = v /\ (Gt(e.val[k], v) => r.e.val[k] = v) /\ (~Gt(e.val[k], v) => r.e.val[k] = e.val[k])
             ELSE r.e = e

TypeOK == steps \in 0..MaxHist
=============================================================================
