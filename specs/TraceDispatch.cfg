SPECIFICATION TraceSpec
CONSTRAINT Track
POSTCONDITION Report
CHECK_DEADLOCK FALSE
