SPECIFICATION Spec
CONSTANTS
    MaxTotal = 3
    MaxCalls = 5
    NWin = 14
INVARIANT FractionInUnit
INVARIANT RecentInRange
INVARIANT CounterWithinTotal
INVARIANT ScriptsNeverOverrun
