---------------------------- MODULE TraceAnalysis ----------------------------
(***************************************************************************)
(* Validates recorded analysis runs (code -> spec) against Analysis.tla.   *)
(* TRACE_FILE: JSON list of traces; events                                 *)
(*   start   ids, masked                                                   *)
(*   read    getter, masked ("none" | "false" | "true"), private           *)
(*   result  freqIds, res_ok, chi_ok, model_ok ("yes" | "no" | "na"),      *)
(*           same_as_twin                                                  *)
(*   end     ids, masked, circuit_same                                     *)
(* Registers: tid -> longest matched prefix; N + tid -> 1 if some read was *)
(* not a read of the unmasked view (reported as drift, not as a violation: *)
(* the observable clause is same_as_twin).                                 *)
(***************************************************************************)
EXTENDS Analysis, Json, IOUtils, TLCExt

Traces == JsonDeserialize(IOEnv.TRACE_FILE)
N == Len(Traces)

VARIABLES tid, l, ids, masked, phase, oddRead
tvars == <<tid, l, ids, masked, phase, oddRead>>

Tr == Traces[tid]
Ev == Tr[l]
IsEvent(name) == l <= Len(Tr) /\ Ev.ev = name /\ l' = l + 1 /\ tid' = tid
ToSet(s) == {s[i] : i \in 1..Len(s)}

TraceInit == tid \in 1..N /\ l = 1 /\ ids = <<>> /\ masked = {} /\ phase = "idle" /\ oddRead = FALSE

Start ==
    /\ IsEvent("start") /\ phase = "idle"
    /\ ids' = Ev.ids /\ masked' = ToSet(Ev.masked) /\ phase' = "running"
    /\ UNCHANGED oddRead
Read ==
    /\ IsEvent("read") /\ phase = "running"
    /\ oddRead' = (oddRead \/ ~LegitimateRead(Ev))
    /\ UNCHANGED <<ids, masked, phase>>
Result ==
    /\ IsEvent("result") /\ phase = "running"
    /\ ResultOK(Ev, ids, masked)
    /\ UNCHANGED <<ids, masked, phase, oddRead>>
End ==
    /\ IsEvent("end") /\ phase = "running"
    /\ EndOK([Ev EXCEPT !.masked = ToSet(Ev.masked)], ids, masked)
    /\ phase' = "done"
    /\ UNCHANGED <<ids, masked, oddRead>>

TraceNext == Start \/ Read \/ Result \/ End
TraceSpec == TraceInit /\ [][TraceNext]_tvars

ASSUME \A t \in 1..(2 * N) : TLCSet(t, 0)
Track ==
    /\ (l - 1 > TLCGet(tid) => TLCSet(tid, l - 1))
    /\ (oddRead => TLCSet(N + tid, 1))
Report ==
    /\ \A t \in 1..N : (TLCGet(t) < Len(Traces[t]) => PrintT(<<"REJECT", t, TLCGet(t), Len(Traces[t])>>))
    /\ \A t \in 1..N : (TLCGet(N + t) = 1 => PrintT(<<"ODDREAD", t>>))
    /\ PrintT(<<"VALIDATED", N>>)
=============================================================================
