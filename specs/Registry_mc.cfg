SPECIFICATION Spec
CONSTANTS
    Builtins = {"L", "La", "Ls", "R", "K"}
    PrivateBuiltins = {"K"}
    UserClasses = {"U1", "U2", "U3"}
    Inconsistent = {"U3"}
    CandSymbols = {"X", "Xa", "L", "x"}
    ResetClearsPrivate = TRUE
    MaxHist = 5
    Record = FALSE
    Enabled = {"Register", "Remove", "Reset", "SetDefault", "ResetDefaults"}
INVARIANT TypeOK
INVARIANT BuiltinsPreserved
INVARIANT NoDuplicateSymbols
INVARIANT InconsistentRefused
INVARIANT PrivateAreRegistered
INVARIANT BuiltinPrivacyKept
INVARIANT OnlyValidSymbols
