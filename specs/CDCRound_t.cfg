SPECIFICATION Spec
CONSTANTS
    Focus = "shapes"
    MaxLeaves = 2
    MaxDepth = 2
    OptMode = "single"
INVARIANT Denotes
INVARIANT Idempotent
