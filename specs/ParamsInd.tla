------------------------------ MODULE ParamsInd ------------------------------
(***************************************************************************)
(* Unbounded counterpart of ElementParams.tla's LoLtHi for one parameter:  *)
(* values are arbitrary integers (plus -inf / +inf encoded as flags), the  *)
(* setters are the ones of ElementParams.tla (SetLower1 / SetUpper1 /      *)
(* SetValue1 and the _set_limits composition).  Checked with Apalache as   *)
(* an inductive invariant:  Init => IndInv  and  IndInv /\ Next => IndInv' *)
(* so  lower < upper  holds after ANY number of calls with ANY integer     *)
(* arguments, not just within TLC's bounds.                                *)
(***************************************************************************)
EXTENDS Integers

VARIABLES
    \* @type: Int;
    val,
    \* @type: Int;
    lo,
    \* @type: Int;
    hi,
    \* @type: Bool;
    loInf,      \* lower limit is -inf
    \* @type: Bool;
    hiInf       \* upper limit is +inf

\* lower < upper with the infinite flags
Below == loInf \/ hiInf \/ lo < hi

Init == val = 0 /\ lo = -1 /\ hi = 1 /\ loInf = FALSE /\ hiInf = FALSE

\* set_lower_limits(v): refused unless v < upper; a value below v is moved onto it
SetLower(v) ==
    /\ (hiInf \/ v < hi)
    /\ lo' = v /\ loInf' = FALSE
    /\ val' = IF val < v THEN v ELSE val
    /\ UNCHANGED <<hi, hiInf>>
SetLowerInf ==
    /\ loInf' = TRUE /\ UNCHANGED <<lo, val, hi, hiInf>>
\* set_upper_limits(v): refused unless v > lower
SetUpper(v) ==
    /\ (loInf \/ v > lo)
    /\ hi' = v /\ hiInf' = FALSE
    /\ val' = IF val > v THEN v ELSE val
    /\ UNCHANGED <<lo, loInf>>
SetUpperInf ==
    /\ hiInf' = TRUE /\ UNCHANGED <<hi, val, lo, loInf>>
SetValue(v) == val' = v /\ UNCHANGED <<lo, hi, loInf, hiInf>>
\* a refused call changes nothing
Refused == UNCHANGED <<val, lo, hi, loInf, hiInf>>

Next ==
    \/ \E v \in Int : SetLower(v) \/ SetUpper(v) \/ SetValue(v)
    \/ SetLowerInf \/ SetUpperInf \/ Refused

IndInv == Below

\* a setter that accepts v = upper (used by the self-test: the induction step must fail for it)
SetLowerSloppy(v) ==
    /\ (hiInf \/ v <= hi)
    /\ lo' = v /\ loInf' = FALSE
    /\ val' = IF val < v THEN v ELSE val
    /\ UNCHANGED <<hi, hiInf>>
NextSloppy == (\E v \in Int : SetLowerSloppy(v) \/ SetUpper(v) \/ SetValue(v)) \/ SetLowerInf \/ SetUpperInf \/ Refused
\* any state satisfying the invariant (the starting point of the induction step)
IndInit == val \in Int /\ lo \in Int /\ hi \in Int /\ loInf \in BOOLEAN /\ hiInf \in BOOLEAN /\ IndInv
==============================================================================
