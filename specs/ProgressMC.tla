----------------------------- MODULE ProgressMC -----------------------------
(***************************************************************************)
(* Model checking side of C18:                                             *)
(*  (a) the Progress counter machine driven by arbitrary API calls on two  *)
(*      nested objects: emitted fractions stay within 0..1000 per mille as *)
(*      long as set_message never lowers a total below the counter, the    *)
(*      shared `recent` marker stays within 0..100, increments beyond the  *)
(*      total are refused;                                                 *)
(*  (b) the option cross product of every analysis entry point: each       *)
(*      reachable state with phase = "config" is one configuration that    *)
(*      the harness runs for real (spec -> code), and for the entry points *)
(*      whose accounting is transcribed in Progress.tla the number of      *)
(*      steps never exceeds the announced total.                           *)
(***************************************************************************)
EXTENDS Progress

CONSTANTS MaxTotal, MaxCalls, NWin     \* NWin: size of the Z-HIT window-function table

VARIABLES phase, cfg, objs, recent, lastEmits, calls
vars == <<phase, cfg, objs, recent, lastEmits, calls>>

NoCfg == [entry |-> "none"]
Dead == [i |-> 0, total |-> 0, n |-> 1, live |-> FALSE, bad |-> FALSE]

\* ---- (b) configurations --------------------------------------------------
KKConfigs ==
    [entry : {"kk"}, test : {"real", "imaginary", "complex", "real-inv", "imaginary-inv", "complex-inv", "cnls"},
     repr : {"Z", "Y", "auto"}, cap : BOOLEAN, ind : BOOLEAN, numrc : {"fixed", "auto"}, fext : {"neg", "zero", "pos"},
     rapid : BOOLEAN]
ZhitConfigs ==
    [entry : {"zhit"}, smoothing : {"none", "lowess", "savgol", "whithend", "modsinc", "auto"},
     interpolation : {"akima", "makima", "cubic", "pchip", "auto"}, admittance : BOOLEAN,
     window : {"custom", "named", "auto"}]
DrtConfigs ==
    [entry : {"drt"}, method : {"tr-nnls"}, mode : {"real", "imaginary"}, lam : {"fixed", "auto-custom", "auto-lc"}]
    \cup [entry : {"drt"}, method : {"lm"}, mode : {"matrix_rank", "pseudo_chisqr"}, lam : {"auto", "fixed"}]
    \cup [entry : {"drt"}, method : {"bht"}, mode : {"gaussian", "c2-matern", "inverse-quadratic"}, lam : {"fwhm", "factor"}]
    \cup [entry : {"drt"}, method : {"mrq-fit"}, mode : {"one", "two"}, lam : {"none"}]
FitConfigs ==
    [entry : {"fit"}, method : {"leastsq", "least_squares", "nelder", "lbfgsb", "powell", "cg", "bfgs", "tnc", "slsqp", "auto", "list2"},
     weight : {"unity", "modulus", "proportional", "boukamp", "auto", "list2"}]
Configs == KKConfigs \cup ZhitConfigs \cup DrtConfigs \cup FitConfigs

\* custom weights are passed with the window argument left at its default ("auto")
ZhitOpt(c) == [window |-> IF c.window \in {"auto", "custom"} THEN "auto" ELSE "named", smoothing |-> IF c.smoothing = "auto" THEN "auto" ELSE "one",
               interpolation |-> IF c.interpolation = "auto" THEN "auto" ELSE "one", custom |-> c.window = "custom"]
NumMethods(m) == IF m = "auto" THEN 9 ELSE IF m = "list2" THEN 2 ELSE 1
NumWeights(w) == IF w = "auto" THEN 4 ELSE IF w = "list2" THEN 2 ELSE 1

\* ---- (a) the counter machine ------------------------------------------------
Init ==
    /\ phase \in {"config", "machine"}
    /\ cfg \in (IF phase = "config" THEN Configs ELSE {NoCfg})
    /\ objs = [o \in 1..2 |-> Dead]
    /\ recent = 0 - 1
    /\ lastEmits = <<>>
    /\ calls = 0

Obj(o) == [i |-> o.i, total |-> o.total, n |-> o.n]
Apply(oid, r) ==     \* r: [o, u]
    /\ r.u.err = ""
    /\ objs' = [objs EXCEPT ![oid] = [i |-> r.o.i, total |-> r.o.total, n |-> r.o.n, live |-> TRUE, bad |-> FALSE]]
    /\ recent' = r.u.recent
    /\ lastEmits' = r.u.emits
Machine == phase = "machine" /\ calls < MaxCalls /\ calls' = calls + 1 /\ UNCHANGED <<phase, cfg>>

Enter(oid, total, n) ==
    /\ Machine /\ ~objs[oid].live /\ (oid = 2 => objs[1].live)
    /\ \E u \in Update(recent, 0, total, FALSE, n) : Apply(oid, [o |-> [i |-> 0, total |-> total, n |-> n], u |-> u])
Increment(oid, step, force) ==
    /\ Machine /\ objs[oid].live /\ ~objs[oid].bad
    /\ \E r \in IncrementOutcomes(recent, Obj(objs[oid]), step, force) :
        IF r.u.err = "" THEN Apply(oid, r)
        ELSE \* refused with ValueError: the exception propagates, only Exit can follow for this object
             /\ objs' = [objs EXCEPT ![oid].i = r.o.i, ![oid].bad = TRUE] /\ UNCHANGED <<recent, lastEmits>>
SetMessage(oid, seti, newtotal, force) ==
    /\ Machine /\ objs[oid].live /\ ~objs[oid].bad
    /\ (newtotal >= 0 => newtotal >= (IF seti THEN 0 ELSE objs[oid].i))       \* well-used: a total is never lowered below the counter
    /\ \E r \in SetMessageOutcomes(recent, Obj(objs[oid]), seti, newtotal, force) : Apply(oid, r)
Exit(oid) ==
    /\ Machine /\ objs[oid].live /\ (oid = 1 => ~objs[2].live)
    /\ \E r \in IncrementOutcomes(recent, Obj(objs[oid]), 1, FALSE) :
        /\ objs' = [objs EXCEPT ![oid] = Dead]
        /\ recent' = IF r.u.err = "" THEN r.u.recent ELSE recent
        /\ lastEmits' = r.u.emits

Next ==
    \/ \E oid \in 1..2, t \in 1..MaxTotal, n \in {1, 10, 50} : Enter(oid, t, n)
    \/ \E oid \in 1..2, s \in 1..2, f \in BOOLEAN : Increment(oid, s, f)
    \/ \E oid \in 1..2, seti \in BOOLEAN, nt \in {0 - 1} \cup (1..MaxTotal), f \in BOOLEAN : SetMessage(oid, seti, nt, f)
    \/ \E oid \in 1..2 : Exit(oid)
Spec == Init /\ [][Next]_vars

\* ---- properties ---------------------------------------------------------------
FractionInUnit == \A k \in 1..Len(lastEmits) : lastEmits[k] \in 0..1000
RecentInRange == recent \in (0 - 1)..100      \* NOT an invariant for nested objects with different steps, see RecentBounded
RecentBounded == recent \in (0 - 1)..150
CounterWithinTotal == \A o \in 1..2 : (objs[o].live /\ ~objs[o].bad) => objs[o].i <= objs[o].total
ScriptsNeverOverrun ==
    /\ KkNeverOverruns(40)
    /\ phase = "config" =>
        /\ (cfg.entry = "zhit" => ZhitSteps(ZhitOpt(cfg), NWin) <= ZhitTotal(ZhitOpt(cfg), NWin))
        /\ (cfg.entry = "fit" => FitSteps(NumMethods(cfg.method), NumWeights(cfg.weight)) <= FitTotal(NumMethods(cfg.method), NumWeights(cfg.weight)))
=============================================================================
