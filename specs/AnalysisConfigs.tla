--------------------------- MODULE AnalysisConfigs ---------------------------
(* The driver configurations of C08 (spec -> code): every state is one run. *)
EXTENDS Analysis

VARIABLES cfg
Init == cfg \in [e : Entries, mask : MaskPatterns, order : Orders, spectrum : Spectra]
Next == FALSE /\ UNCHANGED cfg
Spec == Init /\ [][Next]_cfg

=============================================================================
