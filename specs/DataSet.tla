------------------------------ MODULE DataSet ------------------------------
(***************************************************************************)
(* pyimpspec.data.data_set.DataSet as a state machine over point           *)
(* identities (property C05; reused by Analysis/Cli specs).                 *)
(*                                                                         *)
(* A spectrum point is an integer id p; the harness maps it to             *)
(*   f = 10^p Hz   and   Z = z * (1 - 0.5j)   with z an integer "z-value"  *)
(* whose base value is 64*p, so frequency, impedance and mask of a point   *)
(* "belong together" iff the ids recovered from f and from Z agree and the *)
(* mask flag is the one the model holds for that id.  Subtraction and       *)
(* averaging are linear in z and exact in binary floating point.            *)
(*                                                                         *)
(* One action per public method of DataSet (src/pyimpspec/data/data_set.py)*)
(*   Construct      DataSet.__init__                      l.113-176        *)
(*   SetMask        DataSet.set_mask                      l.453-484        *)
(*   LowPass        DataSet.low_pass                      l.181-200        *)
(*   HighPass       DataSet.high_pass                     l.202-221        *)
(*   Subtract*      DataSet.subtract_impedances           l.223-235        *)
(*   ToDict         DataSet.to_dict                       l.640-662        *)
(*   FromDict       DataSet.from_dict / _parse            l.237-317        *)
(*   Duplicate      DataSet.duplicate                     l.319-350        *)
(*   Average        DataSet.average                       l.352-408        *)
(* The derived views get_nyquist_data, get_bode_data, get_magnitudes,        *)
(* get_phases and to_dataframe are functions of the unmasked view and are   *)
(* compared with it by the replay after every step.                         *)
(* plus the caller-side steps DropKey / ToV1 (editing an exported          *)
(* dictionary) and Swap (which of the two live objects the next call        *)
(* addresses).                                                              *)
(***************************************************************************)
EXTENDS Integers, Sequences, FiniteSets, TLC

CONSTANTS
    N,          \* largest number of points of a constructed spectrum
    MaxHist,    \* bound on the number of API calls in a behaviour
    MaxShift,   \* bound on accumulated z shift (keeps z-values of different ids apart)
    Enabled,    \* names of the actions Next may take (Construct is always enabled)
    SimpleMasks,\* TRUE: mask arguments only name in-range indices to mask (no explicit FALSE, no out-of-range)
    Record      \* TRUE: keep the call history (replay config); FALSE: hist stays <<>>

VARIABLES
    ds,         \* the data set the next call addresses: Seq of [id, m, z] in storage order; <<>> = none
    other,      \* a second live data set (the previous object after Duplicate/FromDict/Average)
    exp,        \* the caller-owned exported dictionary: [pts, keys, v1] or NoExp
    cm,         \* the caller-owned mask dictionary passed to the last Construct/SetMask (as the caller sees it afterwards)
    hist,       \* call history, for replay into the implementation
    steps       \* number of calls so far

vars == <<ds, other, exp, cm, hist, steps>>

OptionalKeys == {"version", "mask", "path", "label", "uuid"}
NoExp == [pts |-> <<>>, keys |-> {}, v1 |-> FALSE]
NoMask == [t |-> {}, f |-> {}]           \* a mask dictionary: keys mapped to TRUE / to FALSE

Base(p) == 64 * p

\* ---------------------------------------------------------------------------
\* helpers
\* ---------------------------------------------------------------------------
Ids(s)      == {s[i].id : i \in 1..Len(s)}
IdSeq(s)    == [i \in 1..Len(s) |-> s[i].id]
Unmasked(s) == SelectSeq(s, LAMBDA p : ~p.m)
Masked(s)   == SelectSeq(s, LAMBDA p : p.m)

\* Apply a mask dictionary (true keys T, false keys F, storage indices 0-based) the way
\* set_mask documents it: an empty dictionary clears every flag, out-of-range keys are
\* ignored, the other keys overwrite.
ApplyMask(s, T, F) ==
    IF T = {} /\ F = {}
    THEN [i \in 1..Len(s) |-> [s[i] EXCEPT !.m = FALSE]]
    ELSE [i \in 1..Len(s) |->
            IF (i - 1) \in T THEN [s[i] EXCEPT !.m = TRUE]
            ELSE IF (i - 1) \in F THEN [s[i] EXCEPT !.m = FALSE]
            ELSE s[i]]

\* Each logged call carries the expected state of both live objects after it (p), so a
\* replay can compare the implementation with the model after every step.
Log(rec) == IF Record THEN Append(hist, rec @@ [p |-> <<ds', other'>>]) ELSE hist

\* Enabled partitions the exploration: a config enables a subset of the actions (the replay
\* configs trade alphabet size for history length).  Construct is always enabled.
Step(a) == (a = "Construct" \/ a \in Enabled) /\ steps < MaxHist /\ steps' = steps + 1

\* ---------------------------------------------------------------------------
\* Construct: n points supplied in ascending or descending order of frequency, with a
\* mask whose index i denotes the i-th SUPPLIED point.  The data set stores the points in
\* descending order; the mask follows its points.
\* ---------------------------------------------------------------------------
Supplied(n, asc) == [i \in 1..n |-> IF asc THEN i ELSE n + 1 - i]   \* ids in supplied order

Construct(n, asc, T, F) ==
    /\ Step("Construct")
    /\ LET sup == Supplied(n, asc)
           flag(p) == LET idx == CHOOSE i \in 1..n : sup[i] = p IN (idx - 1) \in T
       IN ds' = [i \in 1..n |-> [id |-> n + 1 - i, m |-> flag(n + 1 - i), z |-> Base(n + 1 - i)]]
    /\ other' = ds
    /\ cm' = [t |-> T, f |-> F]
    /\ UNCHANGED exp
    /\ hist' = Log([a |-> "Construct", n |-> n, asc |-> asc, t |-> T, f |-> F, r |-> "ok"])

\* Refused constructions: nothing is created.
ConstructBad(kind) ==
    /\ Step("ConstructBad")
    /\ UNCHANGED <<ds, other, exp, cm>>
    /\ hist' = Log([a |-> "ConstructBad", kind |-> kind,
                    r |-> IF kind \in {"maskkey", "maskvalue", "masktype"} THEN "TypeError" ELSE "ValueError"])

SetMask(T, F) ==
    /\ Step("SetMask")
    /\ ds # <<>>
    /\ T \cup F \subseteq 0..Len(ds)
    /\ ds' = ApplyMask(ds, T, F)
    /\ cm' = [t |-> T, f |-> F]
    /\ UNCHANGED <<other, exp>>
    /\ hist' = Log([a |-> "SetMask", t |-> T, f |-> F, r |-> "ok"])

SetMaskBad(kind) ==
    /\ Step("SetMaskBad")
    /\ ds # <<>>
    /\ UNCHANGED <<ds, other, exp, cm>>
    /\ hist' = Log([a |-> "SetMaskBad", kind |-> kind, r |-> "TypeError"])

\* Cut-offs live on a half-decade grid: rank c <-> 10^(c/2) Hz; point p has rank 2p.
LowPass(c) ==
    /\ Step("LowPass")
    /\ ds # <<>>
    /\ ds' = [i \in 1..Len(ds) |-> IF 2 * ds[i].id > c THEN [ds[i] EXCEPT !.m = TRUE] ELSE ds[i]]
    /\ UNCHANGED <<other, exp, cm>>
    /\ hist' = Log([a |-> "LowPass", c |-> c, r |-> "ok"])

HighPass(c) ==
    /\ Step("HighPass")
    /\ ds # <<>>
    /\ ds' = [i \in 1..Len(ds) |-> IF 2 * ds[i].id < c THEN [ds[i] EXCEPT !.m = TRUE] ELSE ds[i]]
    /\ UNCHANGED <<other, exp, cm>>
    /\ hist' = Log([a |-> "HighPass", c |-> c, r |-> "ok"])

\* subtract_impedances with one value for all points (4 units) or one value per point
\* (4*(k) units for the k-th stored point, masked or not).
Shifted(s) == \E i \in 1..Len(s) : Base(s[i].id) - s[i].z >= MaxShift

SubtractScalar ==
    /\ Step("SubtractScalar")
    /\ ds # <<>> /\ ~Shifted(ds)
    /\ ds' = [i \in 1..Len(ds) |-> [ds[i] EXCEPT !.z = @ - 4]]
    /\ UNCHANGED <<other, exp, cm>>
    /\ hist' = Log([a |-> "SubtractScalar", r |-> "ok"])

SubtractArray ==
    /\ Step("SubtractArray")
    /\ ds # <<>> /\ ~Shifted(ds)
    /\ ds' = [i \in 1..Len(ds) |-> [ds[i] EXCEPT !.z = @ - 4 * i]]
    /\ UNCHANGED <<other, exp, cm>>
    /\ hist' = Log([a |-> "SubtractArray", r |-> "ok"])

\* to_dict: the caller now owns a dictionary with every key.
ToDict ==
    /\ Step("ToDict")
    /\ ds # <<>>
    /\ exp' = [pts |-> ds, keys |-> OptionalKeys, v1 |-> FALSE]
    /\ UNCHANGED <<ds, other, cm>>
    /\ hist' = Log([a |-> "ToDict", r |-> "ok"])

\* The caller removes an optional key from the dictionary it owns.
DropKey(k) ==
    /\ Step("DropKey")
    /\ exp # NoExp /\ k \in exp.keys
    /\ (k = "version" => ~exp.v1)      \* only the current layout may omit "version": an old layout is recognised by it
    /\ exp' = [exp EXCEPT !.keys = @ \ {k}]
    /\ UNCHANGED <<ds, other, cm>>
    /\ hist' = Log([a |-> "DropKey", k |-> k, r |-> "ok"])

\* The caller rewrites the dictionary into the version-1 layout
\* (frequency/real/imaginary keys, "version": 1).
ToV1 ==
    /\ Step("ToV1")
    /\ exp # NoExp /\ ~exp.v1 /\ "version" \in exp.keys
    /\ exp' = [exp EXCEPT !.v1 = TRUE]
    /\ UNCHANGED <<ds, other, cm>>
    /\ hist' = Log([a |-> "ToV1", r |-> "ok"])

\* from_dict on the caller's dictionary itself (json = FALSE) or on json.loads(json.dumps(d)).
\* The import must not depend on how often, or whether, the dictionary was imported before:
\* exp is UNCHANGED as far as any later import can tell.
Imported(e) ==
    IF "mask" \in e.keys THEN e.pts
    ELSE [i \in 1..Len(e.pts) |-> [e.pts[i] EXCEPT !.m = FALSE]]

FromDict(json) ==
    /\ Step("FromDict")
    /\ exp # NoExp
    /\ ds' = Imported(exp)
    /\ other' = ds
    /\ UNCHANGED <<exp, cm>>
    /\ hist' = Log([a |-> "FromDict", json |-> json, r |-> "ok"])

Duplicate ==
    /\ Step("Duplicate")
    /\ ds # <<>>
    /\ ds' = ds
    /\ other' = ds
    /\ UNCHANGED <<exp, cm>>
    /\ hist' = Log([a |-> "Duplicate", r |-> "ok"])

\* average([ds, other]): all points (masked or not) of both, no mask on the result.
Average ==
    /\ Step("Average")
    /\ ds # <<>> /\ other # <<>>
    /\ IF IdSeq(ds) = IdSeq(other)
       THEN /\ \A i \in 1..Len(ds) : (ds[i].z + other[i].z) % 2 = 0
            /\ ds' = [i \in 1..Len(ds) |-> [id |-> ds[i].id, m |-> FALSE, z |-> (ds[i].z + other[i].z) \div 2]]
            /\ other' = ds
            /\ hist' = Log([a |-> "Average", r |-> "ok"])
       ELSE /\ UNCHANGED <<ds, other>>
            /\ hist' = Log([a |-> "Average", r |-> "ValueError"])
    /\ UNCHANGED <<exp, cm>>

Swap ==
    /\ Step("Swap")
    /\ ds # <<>> /\ other # <<>> /\ ds # other
    /\ ds' = other /\ other' = ds
    /\ UNCHANGED <<exp, cm>>
    /\ hist' = Log([a |-> "Swap", r |-> "ok"])

\* ---------------------------------------------------------------------------
MaskArgs(n) == {<<T, F>> \in (SUBSET (0..n)) \X (SUBSET (0..n)) : T \cap F = {}}
\* index n is out of range for an n-point spectrum: masks may name it.

Init ==
    /\ ds = <<>> /\ other = <<>> /\ exp = NoExp /\ cm = NoMask /\ hist = <<>> /\ steps = 0

CtorArgs(n) == IF SimpleMasks THEN {<<T, {}>> : T \in SUBSET (0..(n - 1))} ELSE MaskArgs(n)

Next ==
    \/ \E n \in 1..N, asc \in BOOLEAN : \E tf \in CtorArgs(n) : Construct(n, asc, tf[1], tf[2])
    \/ \E k \in {"shape", "empty", "dupfreq", "maskkey", "maskvalue", "masktype"} : ConstructBad(k)
    \/ \E tf \in (IF SimpleMasks THEN CtorArgs(N) ELSE MaskArgs(N)) : SetMask(tf[1], tf[2])
    \/ \E k \in {"maskkey", "maskvalue", "masktype"} : SetMaskBad(k)
    \/ \E c \in 1..(2 * N + 1) : LowPass(c)
    \/ \E c \in 1..(2 * N + 1) : HighPass(c)
    \/ SubtractScalar
    \/ SubtractArray
    \/ ToDict
    \/ \E k \in OptionalKeys : DropKey(k)
    \/ ToV1
    \/ \E j \in BOOLEAN : FromDict(j)
    \/ Duplicate
    \/ Average
    \/ Swap

Spec == Init /\ [][Next]_vars

\* ---------------------------------------------------------------------------
\* Properties (C05)
\* ---------------------------------------------------------------------------
WellFormed(s) ==
    /\ \A i \in 1..Len(s) : s[i].id \in 1..N /\ s[i].m \in BOOLEAN
    /\ \A i, j \in 1..Len(s) : i < j => s[i].id > s[j].id           \* Descending, hence distinct
    /\ \A i \in 1..Len(s) : Base(s[i].id) - s[i].z \in 0..(MaxShift + 4 * N) \* z still identifies id

Descending == WellFormed(ds) /\ WellFormed(other)

\* the unmasked and masked views partition the full view, in order
Partition ==
    \A s \in {ds, other} :
        /\ Ids(Unmasked(s)) \cup Ids(Masked(s)) = Ids(s)
        /\ Ids(Unmasked(s)) \cap Ids(Masked(s)) = {}
        /\ Len(Unmasked(s)) + Len(Masked(s)) = Len(s)

\* Construct in either order with the same physical mask yields the same data set.
OrderInsensitive ==
    \A n \in 1..N : \A T \in SUBSET (0..(n - 1)) :
        LET mk(asc, TT) == [i \in 1..n |->
                LET p == n + 1 - i
                    idx == CHOOSE k \in 1..n : Supplied(n, asc)[k] = p
                IN [id |-> p, m |-> (idx - 1) \in TT]]
            Mirror == {n - 1 - t : t \in T}
        IN mk(TRUE, T) = mk(FALSE, Mirror)

TypeOK ==
    /\ steps \in 0..MaxHist
    /\ exp.keys \subseteq OptionalKeys

Bound == steps <= MaxHist
=============================================================================
