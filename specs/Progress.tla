------------------------------ MODULE Progress ------------------------------
(***************************************************************************)
(* pyimpspec.progress (src/pyimpspec/progress.py) as a counter machine,    *)
(* and the step accounting of the analysis entry points that use it        *)
(* (property C18).                                                         *)
(*                                                                         *)
(*   Enter        Progress.__enter__           l.203                       *)
(*   Increment    Progress.increment           l.246                       *)
(*   Set          Progress.set                 l.231                       *)
(*   SetMessage   Progress.set_message         l.262                       *)
(*   Exit         Progress.__exit__  (= one more increment)  l.207         *)
(* Update(i, total, force, N) is _update_every_N_percent: the               *)
(* module-global `recent` is shared by every Progress object, so nested    *)
(* objects interfere exactly as in the code.  Fractions are integers:      *)
(* `recent` counts hundredths, emitted fractions are per mille.            *)
(***************************************************************************)
EXTENDS Integers, Sequences, FiniteSets, TLC

\* ---------------------------------------------------------------------------
\* _update_every_N_percent(i, total, N = 1, force)
\* returns the set of possible [recent, emits, err] outcomes (a set because the float comparison
\* progress >= recent + step is not decidable from integers exactly on the boundary)
\* ---------------------------------------------------------------------------
Outcome(r, emits, err) == [recent |-> r, emits |-> emits, err |-> err]

\* per-mille values a forced emission of i/total may be rounded to
ForcedPm(i, total) == {pm \in ((1000 * i) \div total)..((1000 * i) \div total + 1) : (pm - 1) * total < 1000 * i /\ 1000 * i < (pm + 1) * total}

\* N: the object's notification step in percent (Progress(..., N=10); default 1)
Update(recent, i, total, force, N) ==
    IF total = 0 THEN {Outcome(recent, <<>>, "ZeroDivisionError")}
    ELSE LET r0 == IF i = 0 THEN 0 - 1 ELSE recent
             done(r) == IF i >= total THEN 0 - 1 ELSE r
             stepped == LET r1 == IF r0 < 0 THEN 0 ELSE r0 + N IN {Outcome(done(r1), <<10 * r1>>, "")}
             other == IF force THEN {Outcome(done(r0), <<pm>>, "") : pm \in ForcedPm(i, total)} ELSE {Outcome(done(r0), <<>>, "")}
         IN IF r0 < 0 \/ 100 * i > (r0 + N) * total THEN stepped
            ELSE IF 100 * i = (r0 + N) * total THEN stepped \cup other      \* exactly on the boundary
            ELSE other

\* ---------------------------------------------------------------------------
\* the Progress object: [i, total, n]  (n = notification step in percent)
\* ---------------------------------------------------------------------------
\* increment(step, force): [i', raised] then Update
IncrementOutcomes(recent, o, step, force) ==
    LET i1 == o.i + step IN
    IF i1 > o.total THEN {[o |-> [o EXCEPT !.i = i1], u |-> Outcome(recent, <<>>, "ValueError")]}       \* i is updated before the check
    ELSE {[o |-> [o EXCEPT !.i = i1], u |-> u] : u \in Update(recent, i1, o.total, force, o.n)}

\* set_message(message, i, total, force): i >= 0 resets the counter to 0 (sic), total >= 0 replaces the total
SetMessageOutcomes(recent, o, seti, newtotal, force) ==
    LET o1 == [i |-> IF seti THEN 0 ELSE o.i, total |-> IF newtotal >= 0 THEN newtotal ELSE o.total, n |-> o.n] IN
    {[o |-> o1, u |-> u] : u \in Update(recent, o1.i, o1.total, force, o.n)}

SetOutcomes(recent, o, i) ==
    IF i > o.total THEN {[o |-> o, u |-> Outcome(recent, <<>>, "ValueError")]}
    ELSE {[o |-> [o EXCEPT !.i = i], u |-> u] : u \in Update(recent, i, o.total, FALSE, o.n)}

\* ---------------------------------------------------------------------------
\* step accounting of the entry points: what the total is set to, and how many increments the
\* loops perform (Exit included).  Each is a function of the option record.
\* ---------------------------------------------------------------------------
\* perform_zhit (analysis/zhit/__init__.py l.349-366 vs the loops in weights.py, smoothing,
\* interpolation.py, reconstruction.py, offset.py).  nwin = size of the window-function table.
ZhitTotal(o, nwin) ==
    LET W == IF o.window = "auto" THEN nwin ELSE 1
        S == IF o.smoothing = "auto" THEN 5 ELSE 1
        I == IF o.interpolation = "auto" THEN 4 ELSE 1
    IN W + S + S * I + S * I + W * S * I + 1
ZhitSteps(o, nwin) ==
    LET w == IF o.custom THEN 1 ELSE IF o.window = "auto" THEN nwin ELSE 1     \* custom weights replace every window
        S == IF o.smoothing = "auto" THEN 5 ELSE 1
        I == IF o.interpolation = "auto" THEN 4 ELSE 1
    IN w + S + S * I + S * I + w * S * I + 1

\* fit_circuit (analysis/fitting.py l.1066-1150): nm methods x nw weights
FitTotal(nm, nw) == nm * nw + 1
FitSteps(nm, nw) == nm * nw + 1

\* evaluate_log_F_ext with num_F_ext_evaluations = n > 0 (kramers_kronig/exploratory.py l.1175-1200 vs the loops of
\* _evaluate_log_F_ext_using_custom_approach l.862-950): weight, baseline, stage 1 = ceil(n/2)+1 grid points minus the
\* one at 0 (z = 1 iff 0 is on the grid), stage 2 = max(3, n - |stage 1 results| + 1) - 2 points minus those within
\* 1e-4 of a stage-1 point (dup), and the exit
KkCustomTotal(n) == 2 + n + 1
KkStage1(n) == (n + 1) \div 2 + 1
KkCustomSteps(n, z, dup) ==
    LET s1 == KkStage1(n)
        m == n - (s1 + 1 - z) + 1
        num == IF m > 3 THEN m ELSE 3
    IN 1 + 1 + (s1 - z) + (num - 2 - dup) + 1
KkNeverOverruns(nmax) ==
    \A n \in 10..nmax : \A z \in 0..1 : \A dup \in 0..2 : KkCustomSteps(n, z, dup) <= KkCustomTotal(n)
KkStepsBound(n) == KkCustomSteps(n, 0, 0)       \* the most steps any run can take (= n + 1)

ZhitOptions == [window : {"auto", "named"}, smoothing : {"auto", "one"}, interpolation : {"auto", "one"}, custom : BOOLEAN]

\* no option combination overruns its total (NWin >= 1: the window table is not empty)
ZhitNeverOverruns(nwin) == \A o \in ZhitOptions : ZhitSteps(o, nwin) <= ZhitTotal(o, nwin)
=============================================================================
