------------------------------ MODULE FitConfigs ------------------------------
(* The driver configurations of C12 (spec -> code): every state is one fit.    *)
EXTENDS Fit
VARIABLES cfg
Init ==
    cfg \in [family : Families, fixed : FixedPatterns, box : Boxes, method : Methods, weight : Weights, constraint : Constraints]
Next == FALSE /\ UNCHANGED cfg
Spec == Init /\ [][Next]_cfg
\* constraints are only defined for families with two resistors in different branches
Sensible == cfg.constraint # "none" => (cfg.family \in {"R(RC)(RC)", "R(RC)(RQ)"} /\ cfg.fixed = "none")
==============================================================================
