----------------------------- MODULE CDCStrings -----------------------------
(***************************************************************************)
(* C04, second input family: strings handed over by the harness (grammar-  *)
(* derived valid codes of CDCRound.tla with single / double character      *)
(* mutations and every truncation).  INPUT_FILE is a JSON list of strings, *)
(* each a list of one-character strings; every state is one input with the *)
(* outcome the scanner/parser model predicts for it.                        *)
(***************************************************************************)
EXTENDS CDC, Json, IOUtils

Inputs == JsonDeserialize(IOEnv.INPUT_FILE)

VARIABLES i, out
vars == <<i, out>>
Init == i \in 1..Len(Inputs) /\ out = Process(Inputs[i]).err
Next == FALSE /\ UNCHANGED vars
Spec == Init /\ [][Next]_vars

NoCrash == out \in AllowedOutcomes
=============================================================================
