SPECIFICATION Spec
CONSTANTS
    MaxAtoms = 3
    Atoms = {"R", "Q", "Tlm", "(", ")", "[", "]", "{", "}", "=", "/", "%", ",", ":", "!", "1", "-", ".", "e", "F", "inf", "open", "X_1", "V", "1e999", "sp"}
    First = {"R", "Q", "Tlm", "(", ")", "[", "]", "{", "}", "=", "/", "%", ",", ":", "!", "1", "-", ".", "e", "F", "inf", "open", "X_1", "V", "1e999", "sp"}
INVARIANT NoCrash
INVARIANT WellFormed
