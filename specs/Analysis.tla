------------------------------ MODULE Analysis ------------------------------
(***************************************************************************)
(* C08: the life cycle of one analysis call over a data set.               *)
(*                                                                         *)
(* The data set is DataSet.tla's abstraction: points are ids in storage    *)
(* order, a subset is masked.  An analysis may read the data set only      *)
(* through the unmasked view; its result carries exactly the unmasked      *)
(* frequencies; residuals, pseudo chi-squared and model impedances are     *)
(* consistent (witnesses evaluated on the real result by the harness);     *)
(* the outcome does not depend on what the masked points hold; neither     *)
(* the data set nor an input circuit changes.                              *)
(*                                                                         *)
(* The module is used in two ways: Spec enumerates the driver              *)
(* configurations (entry point x variant x mask pattern x input order),    *)
(* and TraceAnalysis.tla validates the recorded run of each against the    *)
(* actions below.                                                          *)
(***************************************************************************)
EXTENDS Integers, Sequences, FiniteSets, TLC

Unmasked(ids, masked) == SelectSeq(ids, LAMBDA p : p \notin masked)

\* ---- configurations (spec -> code) ---------------------------------------
Entries ==
    [entry : {"kk"}, variant : {"complex-Z", "real-Z", "imaginary-Z", "complex-inv-Z", "real-inv-Z", "imaginary-inv-Z", "cnls-Z",
                                  "complex-Y", "real-Y", "imaginary-Y", "complex-inv-Y", "real-inv-Y", "imaginary-inv-Y", "cnls-Y",
                                  "auto", "auto-admittance"}]
    \cup [entry : {"kk-exploratory", "kk-log-F-ext"}, variant : {"real", "complex"}]
    \cup [entry : {"zhit"}, variant : {"default", "auto", "admittance", "custom-weights"}]
    \cup [entry : {"drt"}, variant : {"tr-nnls-real", "tr-nnls-imaginary", "lm", "bht", "mrq-fit",
                                     "mrq-fit-defaults",      \* a circuit whose parameters are all at their defaults (initial values are derived from the data)
                                     "mrq-fit-from-fit"}]     \* a FitResult instead of a circuit
    \* fits: the circuit's initial values are user-provided or all defaults
    \cup [entry : {"fit"}, variant : {"leastsq-boukamp", "nelder-modulus", "two-methods", "fixed-parameter", "defaults"}]
MaskPatterns == {"none", "first", "last", "middle", "two", "alternate", "ends"}
Orders == {"desc", "asc"}
\* passive: Re(Z) > 0 everywhere; active: a negative differential resistance, Re(Z) and Re(Y) change sign
Spectra == {"passive", "active"}

\* ---- the life cycle (used by TraceAnalysis) -----------------------------------
\* a read is legitimate iff it asks for the unmasked view through a getter
LegitimateRead(ev) == ev.masked = "false" /\ ~ev.private

\* what a result event must satisfy given the data set at the start
ResultOK(ev, ids, masked) ==
    /\ ev.freqIds = Unmasked(ids, masked)
    /\ ev.res_ok /\ ev.chi_ok /\ ev.model_ok # "no"
    /\ ev.same_as_twin                       \* bit-identical to the run whose masked points hold other values

EndOK(ev, ids, masked) == ev.ids = ids /\ ev.masked = masked /\ ev.circuit_same
=============================================================================
