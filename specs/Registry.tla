------------------------------ MODULE Registry ------------------------------
(***************************************************************************)
(* The process-global element registry of pyimpspec                        *)
(* (src/pyimpspec/circuit/registry.py) and the class-level default values  *)
(* (Element.set_default_values, base.py l.294) — property C15.             *)
(*                                                                         *)
(* Built-in classes are abstracted to five: L, La, Ls (sharing a prefix),  *)
(* R and the private K.  User classes: U1, U2 (numerically consistent) and *)
(* U3 (its _impedance contradicts its equation).  Every class has one      *)
(* parameter whose default value is a rank: 0 = the original default.      *)
(*                                                                         *)
(*   Register       register_element            l.539 (+ _initialize_element l.466) *)
(*   Remove         remove_elements             l.617                      *)
(*   Reset          reset                       l.597                      *)
(*   SetDefault     Class.set_default_values    base.py l.294              *)
(*   ResetDefaults  reset_default_parameter_values l.567                   *)
(* Observations (not actions): get_elements in its four flag combinations, *)
(* parse_cdc on single-symbol codes, get_default_values, fresh instances.  *)
(***************************************************************************)
EXTENDS Integers, Sequences, FiniteSets, TLC

CONSTANTS
    Builtins,       \* {"L", "La", "Ls", "R", "K"}: class id = its symbol
    PrivateBuiltins,\* {"K"}
    UserClasses,    \* {"U1", "U2", "U3"}
    Inconsistent,   \* {"U3"}
    CandSymbols,    \* symbols offered to Register, a subset of the universe tabulated in Shape below
    ResetClearsPrivate, \* TRUE = the repaired reset(); FALSE reproduces the pinned tree (private flags survive reset)
    MaxHist, Record, Enabled

VARIABLES
    elements,   \* the registry in insertion order: Seq of [s |-> symbol, c |-> class]
    private,    \* symbols flagged private
    classSym,   \* the _symbol class attribute of each user class ("" = never initialised)
    dflt,       \* current class-level default value (rank) of each class
    hist, steps

vars == <<elements, private, classSym, dflt, hist, steps>>

\* ---------------------------------------------------------------------------
\* Symbol syntax (_validate_element_symbol, registry.py l.443): the first character is an upper-case
\* ASCII letter - the delimiter the tokenizer relies on - and every further character is a lower-case
\* ASCII letter, a digit or an underscore.  Shape tabulates the character classes of the symbol
\* universe the configurations draw from: U upper, l lower, d digit, u underscore, o anything else.
\* ---------------------------------------------------------------------------
Shape(s) ==
    CASE s = "X" -> <<"U">>            [] s = "L" -> <<"U">>
      [] s = "Xa" -> <<"U", "l">>      [] s = "x" -> <<"l">>
      [] s = "XA" -> <<"U", "U">>      [] s = "XaB" -> <<"U", "l", "U">>
      [] s = "X1" -> <<"U", "d">>      [] s = "X_a" -> <<"U", "u", "l">>
      [] s = "1X" -> <<"d", "U">>      [] s = "_X" -> <<"u", "U">>
      [] s = "X-a" -> <<"U", "o", "l">> [] s = "X a" -> <<"U", "o", "l">>
      [] OTHER -> <<"o">>
SyntaxOK(sh) == Len(sh) > 0 /\ sh[1] = "U" /\ \A k \in 2..Len(sh) : sh[k] \in {"l", "d", "u"}
ValidSymbols == {s \in CandSymbols : SyntaxOK(Shape(s))}

BuiltinSeq == CHOOSE s \in [1..Cardinality(Builtins) -> Builtins] :
                /\ \A i, j \in 1..Cardinality(Builtins) : i # j => s[i] # s[j]
InitElements == [i \in 1..Cardinality(Builtins) |-> [s |-> BuiltinSeq[i], c |-> BuiltinSeq[i]]]

Symbols(es) == {es[i].s : i \in 1..Len(es)}
ClassOf(es, s) == (CHOOSE i \in 1..Len(es) : es[i].s = s)
Lookup(es, s) == es[ClassOf(es, s)].c
Classes == Builtins \cup UserClasses

\* ---------------------------------------------------------------------------
\* Observations
\* ---------------------------------------------------------------------------
\* get_elements(default_only, private) as a set of <<symbol, class>>
GetElementsOf(es, pr, defaultOnly, priv) ==
    {<<es[i].s, es[i].c>> : i \in {j \in 1..Len(es) :
        /\ (defaultOnly => es[j].s \in Builtins)
        /\ (~priv => es[j].s \notin pr)}}
GetElements(defaultOnly, priv) == GetElementsOf(elements, private, defaultOnly, priv)

\* parse_cdc of a one-symbol code: the class, or "" when the symbol is refused
ParseOf(es, s) == IF s \in Symbols(es) THEN Lookup(es, s) ELSE ""
Parse(s) == ParseOf(elements, s)
ProbeSymbols == Builtins \cup ValidSymbols \cup {"Lx"}

\* what a replay compares after every call
View(es, pr, d) ==
    [ff |-> GetElementsOf(es, pr, FALSE, FALSE), ft |-> GetElementsOf(es, pr, FALSE, TRUE),
     tf |-> GetElementsOf(es, pr, TRUE, FALSE),  tt |-> GetElementsOf(es, pr, TRUE, TRUE),
     parse |-> [s \in ProbeSymbols |-> ParseOf(es, s)],
     dflt |-> d]

Step(a) == a \in Enabled /\ steps < MaxHist /\ steps' = steps + 1
Log(rec) == IF Record THEN Append(hist, rec @@ [p |-> View(elements', private', dflt')]) ELSE hist

\* ---------------------------------------------------------------------------
\* register_element(definition(Class = c, symbol = s), private = priv)
\* in the order of the code: symbol syntax; class attributes overwritten (symbol, defaults);
\* impedance validation; duplicate check; insertion.
\* ---------------------------------------------------------------------------
Register(c, s, priv) ==
    /\ Step("Register")
    /\ c \in UserClasses
    /\ IF s \notin ValidSymbols
       THEN /\ UNCHANGED <<elements, private, classSym, dflt>>
            /\ hist' = Log([a |-> "Register", c |-> c, s |-> s, priv |-> priv, r |-> "ValueError"])
       ELSE /\ classSym' = [classSym EXCEPT ![c] = s]
            /\ dflt' = [dflt EXCEPT ![c] = 0]
            /\ IF c \in Inconsistent
               THEN /\ UNCHANGED <<elements, private>>
                    /\ hist' = Log([a |-> "Register", c |-> c, s |-> s, priv |-> priv, r |-> "ValueError"])
               ELSE IF s \in Symbols(elements) /\ Lookup(elements, s) # c
               THEN /\ UNCHANGED <<elements, private>>
                    /\ hist' = Log([a |-> "Register", c |-> c, s |-> s, priv |-> priv, r |-> "KeyError"])
               ELSE /\ elements' = IF s \in Symbols(elements) THEN elements ELSE Append(elements, [s |-> s, c |-> c])
                    /\ private' = IF priv THEN private \cup {s} ELSE private
                    /\ hist' = Log([a |-> "Register", c |-> c, s |-> s, priv |-> priv, r |-> ""])

\* remove_elements(list of classes): refused as a whole if a built-in is named; otherwise the
\* FIRST registration (in insertion order) of each named class is dropped.
RemoveOne(es, c) ==
    IF \E i \in 1..Len(es) : es[i].c = c
    THEN LET i == CHOOSE k \in 1..Len(es) : es[k].c = c /\ \A j \in 1..(k - 1) : es[j].c # c
         IN [j \in 1..(Len(es) - 1) |-> IF j < i THEN es[j] ELSE es[j + 1]]
    ELSE es

FirstSym(es, c) == LET i == CHOOSE k \in 1..Len(es) : es[k].c = c /\ \A j \in 1..(k - 1) : es[j].c # c IN es[i].s

RECURSIVE RemoveAll(_, _, _)
RemoveAll(es, pr, cs) ==     \* cs: sequence of classes
    IF cs = <<>> THEN <<es, pr>>
    ELSE LET c == Head(cs)
             has == \E i \in 1..Len(es) : es[i].c = c
         IN RemoveAll(RemoveOne(es, c), IF has THEN pr \ {FirstSym(es, c)} ELSE pr, Tail(cs))

Remove(cs) ==
    /\ Step("Remove")
    /\ cs # <<>>
    /\ IF \E i \in 1..Len(cs) : cs[i] \in Builtins
       THEN /\ UNCHANGED <<elements, private, classSym, dflt>>
            /\ hist' = Log([a |-> "Remove", cs |-> cs, r |-> "ValueError"])
       ELSE /\ elements' = RemoveAll(elements, private, cs)[1]
            /\ private' = RemoveAll(elements, private, cs)[2]
            /\ UNCHANGED <<classSym, dflt>>
            /\ hist' = Log([a |-> "Remove", cs |-> cs, r |-> ""])

\* reset(elements, default_parameters)
Reset(els, params) ==
    /\ Step("Reset")
    /\ els \/ params
    /\ elements' = IF els THEN InitElements ELSE elements
    /\ private' = IF els /\ ResetClearsPrivate THEN PrivateBuiltins ELSE private
    /\ dflt' = IF params THEN [c \in Classes |-> IF c \in Builtins THEN 0 ELSE dflt[c]] ELSE dflt
    /\ UNCHANGED classSym
    /\ hist' = Log([a |-> "Reset", els |-> els, params |-> params, r |-> ""])

\* Class.set_default_values(key, value)
SetDefault(c, v) ==
    /\ Step("SetDefault")
    /\ IF c \in Builtins THEN TRUE ELSE classSym[c] # ""    \* an uninitialised user class has no parameters yet
    /\ dflt' = [dflt EXCEPT ![c] = v]
    /\ UNCHANGED <<elements, private, classSym>>
    /\ hist' = Log([a |-> "SetDefault", c |-> c, v |-> v, r |-> ""])

\* reset_default_parameter_values(None | class | [classes]): only built-ins are restored
ResetDefaults(cs) ==      \* cs = {} stands for "no argument" = every built-in
    /\ Step("ResetDefaults")
    /\ dflt' = [c \in Classes |-> IF c \in Builtins /\ (cs = {} \/ c \in cs) THEN 0 ELSE dflt[c]]
    /\ UNCHANGED <<elements, private, classSym>>
    /\ hist' = Log([a |-> "ResetDefaults", cs |-> cs, r |-> ""])

Init ==
    /\ elements = InitElements
    /\ private = PrivateBuiltins
    /\ classSym = [c \in UserClasses |-> ""]
    /\ dflt = [c \in Classes |-> 0]
    /\ hist = <<>> /\ steps = 0

RemoveArgs == {<<c>> : c \in UserClasses \ Inconsistent} \cup {<<"U1", "U2">>, <<"R">>, <<"U1", "R">>}

Next ==
    \/ \E c \in UserClasses, s \in CandSymbols, priv \in BOOLEAN : Register(c, s, priv)
    \/ \E cs \in RemoveArgs : Remove(cs)
    \/ \E e, q \in BOOLEAN : Reset(e, q)
    \/ \E c \in {"R", "L", "K", "U1"}, v \in 1..2 : SetDefault(c, v)
    \/ \E cs \in {{}, {"R"}, {"L", "U1"}} : ResetDefaults(cs)

Spec == Init /\ [][Next]_vars

\* ---------------------------------------------------------------------------
\* Properties (C15)
\* ---------------------------------------------------------------------------
BuiltinsPreserved == \A b \in Builtins : Parse(b) = b
NoDuplicateSymbols == \A i, j \in 1..Len(elements) : i # j => elements[i].s # elements[j].s
InconsistentRefused == \A i \in 1..Len(elements) : elements[i].c \notin Inconsistent
PrivateAreRegistered == private \subseteq Symbols(elements)
BuiltinPrivacyKept == private \cap Builtins = PrivateBuiltins
OnlyValidSymbols == Symbols(elements) \subseteq Builtins \cup ValidSymbols

TypeOK == steps \in 0..MaxHist
=============================================================================
