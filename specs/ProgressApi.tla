---------------------------- MODULE ProgressApi ----------------------------
(***************************************************************************)
(* The public API of pyimpspec.progress as one machine (property C18, the  *)
(* clause "progress notifications delivered to registered callbacks always *)
(* carry a fraction between 0 and 1 and a message"):                       *)
(*                                                                         *)
(*   Register      progress.register(callback)            l.30             *)
(*   RegisterBad   progress.register(<not callable>)      l.47             *)
(*   Unregister    progress.unregister(identifier)        l.56             *)
(*   Enter / Increment / Set / SetMessage / Exit          (Progress.tla)   *)
(*                                                                         *)
(* The callback table is a dict keyed by a never-decreasing counter, so    *)
(* handles are never reused and callbacks are notified in registration     *)
(* order (cbs is that order).  Every emission computed by                  *)
(* _update_every_N_percent (Update in Progress.tla) is delivered exactly   *)
(* once to every handle that is registered at that moment, together with   *)
(* the message the object carries.                                         *)
(*                                                                         *)
(* hist records each call with the model's result so that the harness can  *)
(* replay every history through the real module (spec -> code):            *)
(*   ret    handle (Register), 1/0 (Unregister), -1 otherwise              *)
(*   emits  the per-mille fractions emitted by the call (chosen outcome)   *)
(*   alts   every outcome Update allows on a float boundary (amb: > 1)     *)
(*   msg    token of the message the emission carries                      *)
(*   cbs    handles notified, in order                                     *)
(***************************************************************************)
EXTENDS Progress

CONSTANTS MaxHist, MaxCb,
          Oids,          \* Progress objects in play: {1} or {1, 2} (2 is nested inside 1)
          EnterTotals,   \* totals a Progress object may be created with (0: the division fails)
          Steps,         \* notification steps N (percent) a Progress object may be given
          SetArgs,       \* arguments of Progress.set
          NewTotals,     \* totals passed to set_message (-1 = keep); empty = no set_message calls
          UnregArgs,     \* handles passed to unregister (<= 0 are refused, > MaxCb were never issued)
          OneShots       \* kinds of callbacks registered: {FALSE} plain only, {FALSE, TRUE} also self-unregistering ones
\* cfg files hold no negative numbers: the argument sets with -1 are named here and substituted (<-)
UnregAll == (0 - 1)..(MaxCb + 1)
KeepOr3 == {0 - 1, 3}

VARIABLES counter, cbs, objs, recent, hist
vars == <<counter, cbs, objs, recent, hist>>

Dead == [i |-> 0, total |-> 0, n |-> 1, msg |-> 0, live |-> FALSE, bad |-> FALSE]

Init ==
    /\ counter = 0
    /\ cbs = <<>>
    /\ objs = [o \in 1..2 |-> Dead]
    /\ recent = 0 - 1
    /\ hist = <<>>

Room == Len(hist) < MaxHist

Rec(op, oid, x, y, f, err, ret, emits, alts, msg, notified, o, amb) ==
    [op |-> op, oid |-> oid, x |-> x, y |-> y, f |-> f, err |-> err, ret |-> ret, emits |-> emits, alts |-> alts,
     msg |-> msg, cbs |-> notified, i |-> o.i, total |-> o.total, amb |-> amb]

\* the table: registration order; once = the callback unregisters itself when it is notified (a one-shot listener)
Entry(h, once) == [h |-> h, once |-> once]
Without(s, h) == SelectSeq(s, LAMBDA e : e.h # h)
Has(s, h) == \E k \in 1..Len(s) : s[k].h = h
Handles(s) == [k \in 1..Len(s) |-> s[k].h]
\* an emission is delivered to the callbacks registered when it starts; the one-shot ones are gone afterwards
AfterEmit(s, emits) == IF emits # <<>> THEN SelectSeq(s, LAMBDA e : ~e.once) ELSE s

\* ---- the callback table ------------------------------------------------------
Register(once) ==
    /\ Room /\ counter < MaxCb
    /\ counter' = counter + 1
    /\ cbs' = Append(cbs, Entry(counter + 1, once))
    /\ hist' = Append(hist, Rec("register", 0, 0, 0, once, "", counter + 1, <<>>, {<<>>}, 0, <<>>, Dead, FALSE))
    /\ UNCHANGED <<objs, recent>>

RegisterBad ==
    /\ Room
    /\ hist' = Append(hist, Rec("register-bad", 0, 0, 0, FALSE, "TypeError", 0 - 1, <<>>, {<<>>}, 0, <<>>, Dead, FALSE))
    /\ UNCHANGED <<counter, cbs, objs, recent>>

\* h = 0 and h < 0 are refused, h = MaxCb + 1 is a handle that was never issued; f = TRUE passes a non-integer
Unregister(h, nonint) ==
    /\ Room
    /\ LET err == IF nonint THEN "TypeError" ELSE IF h <= 0 THEN "ValueError" ELSE ""
           found == err = "" /\ Has(cbs, h)
       IN /\ cbs' = IF found THEN Without(cbs, h) ELSE cbs
          /\ hist' = Append(hist, Rec("unregister", 0, h, 0, nonint, err, IF err # "" THEN 0 - 1 ELSE IF found THEN 1 ELSE 0,
                                      <<>>, {<<>>}, 0, <<>>, Dead, FALSE))
    /\ UNCHANGED <<counter, objs, recent>>

\* ---- Progress objects (nesting discipline of a with-statement: 2 lives inside 1) ----
Obj(o) == [i |-> o.i, total |-> o.total, n |-> o.n]
Alts(rs) == {r.u.emits : r \in rs}

Enter(oid, total, n) ==
    /\ Room /\ ~objs[oid].live /\ (oid = 2 => objs[1].live)
    /\ LET us == Update(recent, 0, total, FALSE, n) IN
       \E u \in us :
        LET o == [i |-> 0, total |-> total, n |-> n, msg |-> oid, live |-> u.err = "", bad |-> FALSE] IN
        /\ objs' = IF u.err = "" THEN [objs EXCEPT ![oid] = o] ELSE objs
        /\ recent' = IF u.err = "" THEN u.recent ELSE 0 - 1         \* i = 0 resets the marker before the division
        /\ hist' = Append(hist, Rec("enter", oid, total, n, FALSE, u.err, 0 - 1, u.emits, {x.emits : x \in us}, oid, Handles(cbs), o, Cardinality(us) > 1))
        /\ cbs' = AfterEmit(cbs, u.emits)
    /\ UNCHANGED counter

Call(oid, op, x, y, f, rs, msg) ==
    \E r \in rs :
        /\ objs' = [objs EXCEPT ![oid] = [i |-> r.o.i, total |-> r.o.total, n |-> r.o.n, msg |-> msg, live |-> TRUE,
                                          bad |-> (r.u.err # "" /\ op = "inc")]]
        /\ recent' = r.u.recent
        /\ hist' = Append(hist, Rec(op, oid, x, y, f, r.u.err, 0 - 1, r.u.emits, Alts(rs), msg, Handles(cbs), r.o, Cardinality(rs) > 1))
        /\ cbs' = AfterEmit(cbs, r.u.emits)

Usable(oid) == Room /\ objs[oid].live /\ ~objs[oid].bad

Increment(oid, step, force) ==
    /\ Usable(oid)
    /\ Call(oid, "inc", step, 0, force, IncrementOutcomes(recent, Obj(objs[oid]), step, force), objs[oid].msg)
    /\ UNCHANGED counter

Set(oid, i) ==
    /\ Usable(oid)
    /\ Call(oid, "set", i, 0, FALSE, SetOutcomes(recent, Obj(objs[oid]), i), objs[oid].msg)
    /\ UNCHANGED counter

\* the new message token alternates so that a stale message is visible
SetMessage(oid, seti, newtotal, force) ==
    /\ Usable(oid)
    /\ (newtotal >= 0 => newtotal >= (IF seti THEN 0 ELSE objs[oid].i) /\ newtotal > 0)
    /\ Call(oid, "msg", IF seti THEN 0 ELSE 0 - 1, newtotal, force,
            SetMessageOutcomes(recent, Obj(objs[oid]), seti, newtotal, force), 3 + (Len(hist) % 2))
    /\ UNCHANGED counter

Exit(oid) ==
    /\ Room /\ objs[oid].live /\ (oid = 1 => ~objs[2].live)
    /\ LET rs == IncrementOutcomes(recent, Obj(objs[oid]), 1, FALSE) IN
       \E r \in rs :
        /\ objs' = [objs EXCEPT ![oid] = Dead]
        /\ recent' = r.u.recent
        /\ hist' = Append(hist, Rec("exit", oid, 0, 0, FALSE, r.u.err, 0 - 1, r.u.emits, Alts(rs), objs[oid].msg, Handles(cbs), r.o, Cardinality(rs) > 1))
        /\ cbs' = AfterEmit(cbs, r.u.emits)
    /\ UNCHANGED counter

Next ==
    \/ \E once \in OneShots : Register(once)
    \/ RegisterBad
    \/ \E h \in UnregArgs : Unregister(h, FALSE)
    \/ Unregister(1, TRUE)
    \/ \E oid \in Oids, t \in EnterTotals, n \in Steps : Enter(oid, t, n)
    \/ \E oid \in Oids, s \in 1..2, f \in BOOLEAN : Increment(oid, s, f)
    \/ \E oid \in Oids, i \in SetArgs : Set(oid, i)
    \/ \E oid \in Oids, seti \in BOOLEAN, nt \in NewTotals, f \in BOOLEAN : SetMessage(oid, seti, nt, f)
    \/ \E oid \in Oids : Exit(oid)
Spec == Init /\ [][Next]_vars

\* ---- properties ------------------------------------------------------------------
Last == hist[Len(hist)]
\* handles are issued in increasing order and never reused; the table holds issued handles only, each once
HandlesUnique ==
    /\ \A k \in 1..Len(cbs) : cbs[k].h \in 1..counter
    /\ \A j, k \in 1..Len(cbs) : j < k => cbs[j].h < cbs[k].h
\* every emission of a well-used object is a fraction in the unit interval and carries a message
DeliveredInUnit ==
    hist # <<>> => \A k \in 1..Len(Last.emits) : Last.emits[k] \in 0..1000 /\ Last.msg # 0
\* a call that emits notifies exactly the handles registered at that moment (no handle twice, none missing)
NotifiesRegistered ==
    [][(hist' # hist /\ hist'[Len(hist')].emits # <<>>) =>
        /\ hist'[Len(hist')].cbs = Handles(cbs)
        /\ \A k \in 1..Len(cbs) : cbs[k].once => ~Has(cbs', cbs[k].h)]_vars
\* refusals change nothing that a callback could observe
RefusalsAreSilent ==
    (hist # <<>> /\ Last.err # "") => Last.emits = <<>>
\* unregistering reports exactly whether the handle was in the table (action property)
UnregisterHonest ==
    [][(hist' # hist /\ hist'[Len(hist')].op = "unregister" /\ hist'[Len(hist')].err = "") =>
        LET r == hist'[Len(hist')] IN
        /\ (r.ret = 1) = Has(cbs, r.x)
        /\ ~Has(cbs', r.x)
        /\ \A h \in 1..(MaxCb + 1) : h # r.x => (Has(cbs', h) = Has(cbs, h))]_vars
\* a counter never exceeds its total while the object is usable
CounterWithinTotal == \A o \in 1..2 : (objs[o].live /\ ~objs[o].bad) => objs[o].i <= objs[o].total
=============================================================================
