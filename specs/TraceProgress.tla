--------------------------- MODULE TraceProgress ---------------------------
(***************************************************************************)
(* Validates traces recorded from real analysis runs against Progress.tla  *)
(* (code -> spec).  The file named by the environment variable TRACE_FILE  *)
(* holds a JSON list of traces; each trace is a list of events:            *)
(*   call   entry, opts (entry-point specific), nwin                       *)
(*   enter  oid, total, n (notification step, percent), emits, err         *)
(*   inc    oid, step, force, i, emits, err                                *)
(*   msg    oid, seti, newtotal, force, i, total, emits, err               *)
(*   set    oid, arg, i, emits, err                                        *)
(*   exit   oid, i, emits, err                                             *)
(*   end    outcome, steps (increments of object 1, exit included)         *)
(* A trace is accepted iff every event is explained by the counter machine *)
(* (same counter, same total, same error, same emitted fractions), every   *)
(* emitted fraction lies in 0..1000 per mille, and the outcome is one the  *)
(* property allows.  One TLC run validates all traces: `tid` is chosen in  *)
(* Init, the longest matched prefix of each trace is kept in a TLC         *)
(* register, and the post-condition prints one line per rejected trace.    *)
(***************************************************************************)
EXTENDS Progress, Json, IOUtils, TLCExt

Traces == JsonDeserialize(IOEnv.TRACE_FILE)
N == Len(Traces)
MaxObj == 4

VARIABLES tid, l, objs, recent, incs, scriptOK
vars == <<tid, l, objs, recent, incs, scriptOK>>

Tr == Traces[tid]
Ev == Tr[l]
IsEvent(name) == l <= Len(Tr) /\ Ev.ev = name /\ l' = l + 1 /\ tid' = tid

Dead == [i |-> 0, total |-> 0, n |-> 1, live |-> FALSE]
Obj(o) == [i |-> o.i, total |-> o.total, n |-> o.n]
InUnit(emits) == \A k \in 1..Len(emits) : emits[k] \in 0..1000

AllowedOutcomes == {"returned", "refused-upfront", "refused-late", "library-error"}

TraceInit ==
    /\ tid \in 1..N
    /\ l = 1
    /\ objs = [o \in 1..MaxObj |-> Dead]
    /\ recent = 0 - 1
    /\ incs = 0
    /\ scriptOK = TRUE

\* the recorded total / step count agree with the entry point's accounting in Progress.tla
ScriptTotalOK(total) ==
    LET c == Tr[1] IN
    IF c.ev # "call" THEN TRUE
    ELSE IF c.entry = "zhit" THEN total = ZhitTotal(c.opts, c.nwin)
    ELSE IF c.entry = "fit" THEN total = FitTotal(c.opts.nm, c.opts.nw)
    ELSE IF c.entry = "kk-custom" THEN total = KkCustomTotal(c.opts.n)
    ELSE TRUE
ScriptStepsOK(n) ==
    LET c == Tr[1] IN
    IF c.ev # "call" THEN TRUE
    ELSE IF c.entry = "zhit" THEN n = ZhitSteps(c.opts, c.nwin)
    ELSE IF c.entry = "fit" THEN n <= FitSteps(c.opts.nm, c.opts.nw)
    ELSE IF c.entry = "kk-custom" THEN n <= KkStepsBound(c.opts.n)
    ELSE TRUE

Call ==
    /\ IsEvent("call")
    /\ UNCHANGED <<objs, recent, incs, scriptOK>>

Enter ==
    /\ IsEvent("enter")
    /\ Ev.oid \in 1..MaxObj /\ ~objs[Ev.oid].live
    /\ \E u \in Update(recent, 0, Ev.total, FALSE, Ev.n) :
        /\ u.emits = Ev.emits /\ u.err = Ev.err /\ InUnit(Ev.emits)
        /\ recent' = u.recent
    /\ objs' = [objs EXCEPT ![Ev.oid] = [i |-> 0, total |-> Ev.total, n |-> Ev.n, live |-> TRUE]]
    /\ scriptOK' = (scriptOK /\ (Ev.oid = 1 => ScriptTotalOK(Ev.total)))
    /\ incs' = IF Ev.oid = 1 THEN 0 ELSE incs        \* the accounting is per top-level Progress object

Inc ==
    /\ IsEvent("inc")
    /\ objs[Ev.oid].live
    /\ \E r \in IncrementOutcomes(recent, Obj(objs[Ev.oid]), Ev.step, Ev.force) :
        /\ r.o.i = Ev.i /\ r.u.emits = Ev.emits /\ r.u.err = Ev.err /\ InUnit(Ev.emits)
        /\ recent' = r.u.recent
        /\ objs' = [objs EXCEPT ![Ev.oid].i = r.o.i]
    /\ incs' = IF Ev.oid = 1 THEN incs + 1 ELSE incs
    /\ UNCHANGED scriptOK

Exit ==
    /\ IsEvent("exit")
    /\ objs[Ev.oid].live
    /\ \E r \in IncrementOutcomes(recent, Obj(objs[Ev.oid]), 1, FALSE) :
        /\ r.o.i = Ev.i /\ r.u.emits = Ev.emits /\ r.u.err = Ev.err /\ InUnit(Ev.emits)
        /\ recent' = r.u.recent
    /\ objs' = [objs EXCEPT ![Ev.oid] = Dead]
    /\ incs' = IF Ev.oid = 1 THEN incs + 1 ELSE incs
    /\ scriptOK' = (scriptOK /\ ((Ev.oid = 1 /\ Ev.err = "" /\ Tr[Len(Tr)].outcome = "returned") => ScriptStepsOK(incs + 1)))

Msg ==
    /\ IsEvent("msg")
    /\ objs[Ev.oid].live
    /\ \E r \in SetMessageOutcomes(recent, Obj(objs[Ev.oid]), Ev.seti, Ev.newtotal, Ev.force) :
        /\ r.o.i = Ev.i /\ r.o.total = Ev.total /\ r.u.emits = Ev.emits /\ r.u.err = Ev.err /\ InUnit(Ev.emits)
        /\ recent' = r.u.recent
        /\ objs' = [objs EXCEPT ![Ev.oid].i = r.o.i, ![Ev.oid].total = r.o.total]
    /\ UNCHANGED <<incs, scriptOK>>

SetI ==
    /\ IsEvent("set")
    /\ objs[Ev.oid].live
    /\ \E r \in SetOutcomes(recent, Obj(objs[Ev.oid]), Ev.arg) :
        /\ r.o.i = Ev.i /\ r.u.emits = Ev.emits /\ r.u.err = Ev.err /\ InUnit(Ev.emits)
        /\ recent' = r.u.recent
        /\ objs' = [objs EXCEPT ![Ev.oid].i = r.o.i]
    /\ UNCHANGED <<incs, scriptOK>>

End ==
    /\ IsEvent("end")
    /\ Ev.outcome \in AllowedOutcomes
    /\ UNCHANGED <<objs, recent, incs, scriptOK>>

TraceNext == Call \/ Enter \/ Inc \/ Exit \/ Msg \/ SetI \/ End
TraceSpec == TraceInit /\ [][TraceNext]_vars

\* registers: tid -> longest matched prefix; N + tid -> 1 if the script accounting disagreed
ASSUME \A t \in 1..(2 * N) : TLCSet(t, 0)
Track ==
    /\ (l - 1 > TLCGet(tid) => TLCSet(tid, l - 1))
    /\ (~scriptOK => TLCSet(N + tid, 1))

Report ==
    /\ \A t \in 1..N : (TLCGet(t) < Len(Traces[t]) => PrintT(<<"REJECT", t, TLCGet(t), Len(Traces[t])>>))
    /\ \A t \in 1..N : (TLCGet(N + t) = 1 => PrintT(<<"SCRIPT", t>>))
    /\ PrintT(<<"VALIDATED", N>>)
=============================================================================
