------------------------------ MODULE CDCRound ------------------------------
(***************************************************************************)
(* C03: a circuit description code means one circuit, however spelled.     *)
(* A state is one (generator tree, spelling options) pair; `text` is the    *)
(* spelling and `expect` the circuit it must denote.  The generator is the  *)
(* oracle: expect = NormRoot(tree), never the parser's own output.          *)
(***************************************************************************)
EXTENDS CDC

CONSTANTS
    Focus,      \* which family of trees: "shapes" | "params" | "labels" | "subs" | "q"
    MaxLeaves,  \* bound on the number of leaves of the connection structure
    MaxDepth,   \* bound on the nesting depth below the root
    OptMode     \* "canon" (library output only) | "single" (one deviation at a time) | "layout" | "product" (all combinations)

VARIABLES tree, opts, text, expect, canon
vars == <<tree, opts, text, expect, canon>>

\* ---------------------------------------------------------------------------
\* leaves
\* ---------------------------------------------------------------------------
Default(sym) == Elem(sym, ParamDefs(sym), SubDefs(sym), <<>>)
PlainLeaves == {Default(SymR), Default(SymC)}

\* value grid of Resistor.R around its class defaults (0, 1e3, inf)
RGrid == <<NInf, Dec(TRUE, 2, 0), Dec(TRUE, 1, 0), Zero, Dec(FALSE, 1, 3), Dec(FALSE, 1, 4), Dec(FALSE, 1, 5), Dec(FALSE, 1, 6), PInf>>
\* Capacitor.C: defaults 1e-24, 1e-6, 1e3
CGrid == <<NInf, Dec(FALSE, 1, -30), Dec(FALSE, 1, -27), Dec(FALSE, 1, -24), Dec(FALSE, 1, -6), Dec(FALSE, 1, 3), Dec(FALSE, 1, 4), Dec(FALSE, 1, 5), PInf>>

\* every (lower, value, upper, fixed) with lower < upper, lower <= value <= upper, value finite
ParamLeaves(sym, key, grid) ==
    {Elem(sym, <<PDef(key, grid[lo], grid[v], grid[hi], fx)>>, <<>>, <<>>) :
        lo \in 1..8, v \in 2..8, hi \in 2..9, fx \in BOOLEAN}

GoodParamLeaves(sym, key, grid) ==
    {e \in ParamLeaves(sym, key, grid) :
        LET p == e.ps[1] IN Cmp(p.lo, p.hi) < 0 /\ Cmp(p.lo, p.v) <= 0 /\ Cmp(p.v, p.hi) <= 0}

QLeaves ==
    LET Y == ParamDefs(SymQ)[1]
        n == ParamDefs(SymQ)[2]
    IN {Elem(SymQ, <<Y, PDef(<<"n">>, lo, v, hi, fx)>>, <<>>, <<>>) :
            lo \in {Zero, Dec(FALSE, 5, -1)}, v \in {Dec(FALSE, 5, -1), Dec(FALSE, 95, -2), Dec(FALSE, 1, 0)},
            hi \in {Dec(FALSE, 1, 0), Dec(FALSE, 2, 0)}, fx \in BOOLEAN}
       \cup {Elem(SymQ, <<PDef(<<"Y">>, Dec(FALSE, 1, -24), Dec(FALSE, 5, -3), Dec(FALSE, 1, 6), fx), n>>, <<>>, <<>>) : fx \in BOOLEAN}

Labels == {<<"a">>, <<"a", "b", " ", "c">>, <<"a", "{", "b", "}", "c">>, <<"R", "_", "1">>, <<"x", ":", "y">>, <<"x", ",", "y">>,
           <<"x", "=", "1">>, <<"a", "(", "b">>, <<"Z", "]">>,
           <<"1", "a">>, <<"_", "a">>, <<"1", "e", "3">>}
\* labels set_label accepts but the syntax cannot carry: a "}" that closes no "{" ends the label
\* ... and a label whose first character is not a letter, digit or underscore is not recognised
BadLabels == {<<"a", "}", "b">>, <<"a", "{", "b">>, <<"{", "a", "}">>, <<"(", "a">>, <<"-", "1">>, <<".", "x">>}
BadLabelLeaves == {[Default(SymR) EXCEPT !.label = l] : l \in BadLabels}
LabelLeaves == {[Default(SymR) EXCEPT !.label = l] : l \in Labels}
                 \cup {[Default(SymTlm) EXCEPT !.label = <<"t">>]}

\* subcircuit values
SubVals ==
    {SubDef(<<"X", "_", "1">>, TRUE, NoConn), SubDef(<<"X", "_", "1">>, FALSE, NoConn)}
    \cup {SubDef(<<"X", "_", "1">>, FALSE, c) :
            c \in {Conn("S", <<Default(SymR)>>), Conn("S", <<Default(SymR), Default(SymC)>>),
                   Conn("S", <<Default(SymR), Default(SymC), Default(SymL)>>),
                   Conn("P", <<Default(SymR), Default(SymC)>>),
                   Conn("S", <<Default(SymR), Conn("P", <<Default(SymC), Default(SymL)>>)>>),
                   Conn("S", <<Conn("P", <<Default(SymR), Default(SymC)>>)>>),
                   Conn("S", <<[Default(SymTlm) EXCEPT !.subs[1] = SubDef(<<"X", "_", "1">>, FALSE, Conn("S", <<Default(SymC), Default(SymL)>>))]>>),
                   SubDefs(SymTlm)[1].con}}
SubLeavesPlain ==
    {[Default(SymTlm) EXCEPT !.subs[1] = x, !.subs[3] = za] :
        x \in SubVals,
        za \in {SubDefs(SymTlm)[3], SubDef(<<"Z", "_", "A">>, FALSE, NoConn), SubDef(<<"Z", "_", "A">>, FALSE, Conn("S", <<Default(SymC)>>))}}
\* ... and labelled containers (the label follows the last definition, which may be a bare list)
SubLeaves ==
    SubLeavesPlain
    \cup {[Default(SymTlm) EXCEPT !.subs[1] = x, !.label = <<"t">>] :
            x \in {SubDef(<<"X", "_", "1">>, FALSE, Conn("S", <<Default(SymR), Default(SymC)>>)),
                   SubDef(<<"X", "_", "1">>, FALSE, Conn("S", <<Default(SymC)>>)),
                   SubDef(<<"X", "_", "1">>, FALSE, Conn("P", <<Default(SymR), Default(SymC)>>))}}
    \cup {[Default(SymTlm) EXCEPT !.subs[5] = SubDef(<<"Z", "e", "t", "a">>, FALSE, Conn("S", <<Default(SymR), Default(SymQ)>>)), !.label = <<"z">>,
                                   !.ps[1] = PDef(<<"L">>, Dec(FALSE, 1, -24), Dec(FALSE, 25, -1), PInf, TRUE)]}
    \* L is fixed by default: a definition without the F flag must free it (and stay free through serialise + parse)
    \cup {[Default(SymTlm) EXCEPT !.ps[1] = PDef(<<"L">>, Dec(FALSE, 1, -24), v, PInf, FALSE)] : v \in {Dec(FALSE, 1, 0), Dec(FALSE, 25, -1)}}

SpecialLeaves ==
    CASE Focus = "shapes" -> {}
      [] Focus = "params" -> GoodParamLeaves(SymR, <<"R">>, RGrid) \cup GoodParamLeaves(SymC, <<"C">>, CGrid)
      [] Focus = "q"      -> QLeaves
      [] Focus = "labels" -> LabelLeaves
      [] Focus = "badlabels" -> BadLabelLeaves
      [] Focus = "subs"   -> SubLeaves

\* ---------------------------------------------------------------------------
\* connection structures: the placeholder "X" marks where the special leaf goes (at most one)
\* ---------------------------------------------------------------------------
Hole == Elem(<<"?">>, <<>>, <<>>, <<>>)

RECURSIVE NodesOf(_, _, _), SeqsOf(_, _, _)
\* nodes with exactly n leaves, depth <= d, h = number of holes (0 or 1)
NodesOf(n, d, h) ==
    (IF n = 1 THEN (IF h = 1 THEN {Hole} ELSE PlainLeaves) ELSE {})
    \cup (IF d > 0 THEN {Conn("S", s) : s \in SeqsOf(n, d - 1, h)}
                        \cup {Conn("P", s) : s \in {q \in SeqsOf(n, d - 1, h) : Len(q) >= 2}}
          ELSE {})
\* non-empty sequences of nodes with n leaves and h holes in total
SeqsOf(n, d, h) ==
    IF n <= 0 THEN {}
    ELSE {<<x>> : x \in NodesOf(n, d, h)}
         \cup UNION {{<<x>> \o r : x \in NodesOf(k[1], d, k[2]), r \in SeqsOf(n - k[1], d, h - k[2])} :
                        k \in (1..(n - 1)) \X (0..h)}

RECURSIVE Fill(_, _)
Fill(n, sp) ==
    IF n = Hole THEN sp
    ELSE IF n.t = "conn" THEN [n EXCEPT !.items = [i \in 1..Len(n.items) |-> Fill(n.items[i], sp)]]
    ELSE n

Roots(h) == UNION {{Conn("S", s) : s \in SeqsOf(n, MaxDepth, h)} : n \in 1..MaxLeaves}

Trees ==
    {Conn("S", <<>>)} \cup Roots(0) \cup {Fill(r, sp) : r \in Roots(1), sp \in SpecialLeaves}

\* ---------------------------------------------------------------------------
\* spelling options
\* ---------------------------------------------------------------------------
Opts ==
    CASE OptMode = "canon" -> {[Canon EXCEPT !.dec = d, !.header = hd] : d \in {1, 2, 12, 17}, hd \in BOOLEAN}
      [] OptMode = "single" ->
            {Canon, [Canon EXCEPT !.omit = TRUE], [Canon EXCEPT !.lim = "omit"], [Canon EXCEPT !.lim = "pct"],
             [Canon EXCEPT !.flow = TRUE], [Canon EXCEPT !.short = "zero"], [Canon EXCEPT !.open = "inf"],
             [Canon EXCEPT !.bare = TRUE], [Canon EXCEPT !.ws = "none"], [Canon EXCEPT !.ws = "all"],
             [Canon EXCEPT !.outer = FALSE], [Canon EXCEPT !.header = TRUE],
             [Canon EXCEPT !.omit = TRUE, !.lim = "omit", !.bare = TRUE, !.outer = FALSE, !.ws = "none"]}
      [] OptMode = "layout" ->       \* the options that matter for plain leaves
            {[Canon EXCEPT !.omit = om, !.ws = w, !.header = hd, !.outer = ou] :
                om \in BOOLEAN, w \in {"canon", "none", "all"}, hd \in BOOLEAN, ou \in BOOLEAN}
      [] OptMode = "productlite" ->      \* the options that interact for parameters / sub-circuits
            {[Canon EXCEPT !.omit = om, !.lim = li, !.flow = fl, !.bare = ba, !.ws = w, !.outer = ou] :
                om \in BOOLEAN, li \in {"full", "omit", "pct"}, fl \in BOOLEAN, ba \in BOOLEAN, w \in {"canon", "all"}, ou \in BOOLEAN}
      [] OptMode = "product" ->
            {[omit |-> om, lim |-> li, flow |-> fl, short |-> sh, open |-> op, bare |-> ba, ws |-> w, header |-> hd,
              outer |-> ou, dec |-> 12] :
                om \in BOOLEAN, li \in {"full", "omit", "pct"}, fl \in BOOLEAN, sh \in {"short", "zero"},
                op \in {"open", "inf"}, ba \in BOOLEAN, w \in {"canon", "none", "all"}, hd \in BOOLEAN, ou \in BOOLEAN}

Init ==
    /\ tree \in Trees
    /\ opts \in Opts
    \* the empty circuit has exactly the spellings "", "[]" and "!...![]" (Parser.process compares
    \* the text itself): blanks between the brackets are not a spelling of it
    /\ tree.items = <<>> => (opts.ws # "all" /\ ~(opts.header /\ ~opts.outer))
    /\ text = Spell(tree, opts)
    /\ expect = NormRoot(tree)
    /\ canon = Serialize(tree)          \* what Circuit.serialize() prints for the generator's own tree
Next == FALSE /\ UNCHANGED vars
Spec == Init /\ [][Next]_vars

\* ---------------------------------------------------------------------------
\* Properties (C03), evaluated on the parser MODEL; the replay evaluates them on the code
\* ---------------------------------------------------------------------------
\* A circuit is representable if every label starts with a letter, digit or underscore and has
\* balanced braces (LabelEnd stops at the first "}" that closes nothing, and an unclosed "{"
\* swallows the rest of the input).
RECURSIVE Balanced(_, _)
Balanced(lab, depth) ==
    IF lab = <<>> THEN depth = 0
    ELSE IF lab[1] = "{" THEN Balanced(Tail(lab), depth + 1)
    ELSE IF lab[1] = "}" THEN depth > 0 /\ Balanced(Tail(lab), depth - 1)
    ELSE Balanced(Tail(lab), depth)
RECURSIVE Representable(_)
Representable(n) ==
    IF n.t = "elem" THEN (n.label = <<>> \/ n.label[1] \in Letters \cup Digits \cup {"_"}) /\ Balanced(n.label, 0) /\ \A i \in 1..Len(n.subs) : n.subs[i].open \/ Representable(n.subs[i].con)
    ELSE \A i \in 1..Len(n.items) : Representable(n.items[i])

\* every spelling denotes the generator's circuit (up to merging directly nested connections of
\* the same kind: the implicit outer series is not merged with an explicit one by Parser.process)
Denotes == Representable(tree) => LET r == Process(text) IN r.err = "" /\ NormRoot(r.tree) = expect
\* (documented limit, a known finding on the implementation) the others are NOT carried faithfully
Unrepresentable == ~Representable(tree) => LET r == Process(text) IN r.err # "" \/ NormRoot(r.tree) # expect

\* printing the denoted circuit and parsing that text gives the same circuit again, and the
\* text is a fixed point of parse-then-print
Idempotent ==
    LET t1 == Spell(expect, [Canon EXCEPT !.dec = opts.dec, !.header = TRUE])
        r == Process(t1)
    IN Representable(tree) =>
        (r = [err |-> "", tree |-> expect] /\ Spell(r.tree, [Canon EXCEPT !.dec = opts.dec, !.header = TRUE]) = t1)
=============================================================================
