----------------------------- MODULE Connection -----------------------------
(***************************************************************************)
(* The list interface of Connection (Series / Parallel), base.py           *)
(* l.1322-1443: append, extend, insert, remove, pop, clear, index, count,  *)
(* contains(top_level), and the derived views get_elements(recursive) /    *)
(* get_connections.  Not one of the listed properties: this module extends *)
(* the specification's coverage; its replay reports disagreements as DRIFT.*)
(*                                                                         *)
(* Items are identities: leaves 1..NLeaves and one nested connection (id   *)
(* Inner) with its own item list.  `root` and `inner` are the two lists.   *)
(***************************************************************************)
EXTENDS Integers, Sequences, FiniteSets, TLC

CONSTANTS NLeaves, MaxHist, MaxLen
Inner == 9
Leaves == 1..NLeaves
Items == Leaves \cup {Inner}

VARIABLES root, inner, hist, steps
vars == <<root, inner, hist, steps>>

InSeq(x, s) == \E i \in 1..Len(s) : s[i] = x
FirstIndex(x, s) == CHOOSE i \in 1..Len(s) : s[i] = x /\ \A j \in 1..(i - 1) : s[j] # x
RemoveAt(s, i) == [j \in 1..(Len(s) - 1) |-> IF j < i THEN s[j] ELSE s[j + 1]]
InsertAt(s, i, x) ==      \* list.insert with a 0-based index i >= 0; beyond the end = append
    IF i >= Len(s) THEN Append(s, x)
    ELSE [j \in 1..(Len(s) + 1) |-> IF j <= i THEN s[j] ELSE IF j = i + 1 THEN x ELSE s[j - 1]]

\* recursive views of the root
ElementsRec == LET RECURSIVE F(_)
                   F(s) == IF s = <<>> THEN <<>> ELSE (IF s[1] = Inner THEN inner ELSE <<s[1]>>) \o F(Tail(s))
               IN F(root)
ContainsRec(x) == InSeq(x, root) \/ (InSeq(Inner, root) /\ InSeq(x, inner))

Step == steps < MaxHist /\ steps' = steps + 1
View(r, n) == [root |-> r, inner |-> n]
Log(rec) == Append(hist, rec)

\* which: "root" | "inner"
Get(w) == IF w = "root" THEN root ELSE inner
Set(w, s) == IF w = "root" THEN root' = s /\ inner' = inner ELSE inner' = s /\ root' = root
Allowed(w, x) == w = "root" \/ x # Inner            \* the nested connection is never put inside itself

AppendItem(w, x) ==
    /\ Step /\ Allowed(w, x) /\ Len(Get(w)) < MaxLen
    /\ Set(w, Append(Get(w), x))
    /\ hist' = Log([a |-> "append", w |-> w, x |-> x, r |-> "", out |-> 0, p |-> View(root', inner')])
InsertItem(w, i, x) ==
    /\ Step /\ Allowed(w, x) /\ Len(Get(w)) < MaxLen
    /\ Set(w, InsertAt(Get(w), i, x))
    /\ hist' = Log([a |-> "insert", w |-> w, i |-> i, x |-> x, r |-> "", out |-> 0, p |-> View(root', inner')])
RemoveItem(w, x) ==
    /\ Step
    /\ IF InSeq(x, Get(w)) THEN Set(w, RemoveAt(Get(w), FirstIndex(x, Get(w)))) /\ hist' = Log([a |-> "remove", w |-> w, x |-> x, r |-> "", out |-> 0, p |-> View(root', inner')])
       ELSE UNCHANGED <<root, inner>> /\ hist' = Log([a |-> "remove", w |-> w, x |-> x, r |-> "ValueError", out |-> 0, p |-> View(root, inner)])
PopItem(w, i) ==
    /\ Step
    /\ IF i < Len(Get(w)) THEN Set(w, RemoveAt(Get(w), i + 1)) /\ hist' = Log([a |-> "pop", w |-> w, i |-> i, r |-> "", out |-> Get(w)[i + 1], p |-> View(root', inner')])
       ELSE UNCHANGED <<root, inner>> /\ hist' = Log([a |-> "pop", w |-> w, i |-> i, r |-> "IndexError", out |-> 0, p |-> View(root, inner)])
ClearItems(w) ==
    /\ Step /\ Set(w, <<>>)
    /\ hist' = Log([a |-> "clear", w |-> w, r |-> "", out |-> 0, p |-> View(root', inner')])
\* observations with a return value
IndexOf(w, x) ==
    /\ Step /\ UNCHANGED <<root, inner>>
    /\ hist' = Log([a |-> "index", w |-> w, x |-> x, r |-> IF InSeq(x, Get(w)) THEN "" ELSE "ValueError",
                    out |-> IF InSeq(x, Get(w)) THEN FirstIndex(x, Get(w)) - 1 ELSE 0, p |-> View(root, inner)])
Contains(x, top) ==
    /\ Step /\ UNCHANGED <<root, inner>>
    /\ hist' = Log([a |-> "contains", x |-> x, top |-> top, r |-> "",
                    out |-> IF (IF top THEN InSeq(x, root) ELSE ContainsRec(x)) THEN 1 ELSE 0, p |-> View(root, inner)])

Init == root = <<>> /\ inner = <<>> /\ hist = <<>> /\ steps = 0
Next ==
    \/ \E w \in {"root", "inner"}, x \in Items : AppendItem(w, x) \/ RemoveItem(w, x) \/ IndexOf(w, x)
    \/ \E w \in {"root", "inner"}, i \in 0..2, x \in Items : InsertItem(w, i, x)
    \/ \E w \in {"root", "inner"}, i \in 0..2 : PopItem(w, i)
    \/ \E w \in {"root", "inner"} : ClearItems(w)
    \/ \E x \in Leaves, top \in BOOLEAN : Contains(x, top)
Spec == Init /\ [][Next]_vars

\* the recursive element view is the flattening of the two lists
FlatView == Len(ElementsRec) = Len(SelectSeq(root, LAMBDA y : y # Inner)) + (IF InSeq(Inner, root) THEN Len(SelectSeq(root, LAMBDA y : y = Inner)) * Len(inner) ELSE 0)
=============================================================================
