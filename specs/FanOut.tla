------------------------------- MODULE FanOut -------------------------------
(***************************************************************************)
(* C17: results do not depend on worker scheduling.                        *)
(*                                                                         *)
(* The fan-out points of pyimpspec share one shape: a list of tasks is     *)
(* submitted to a pool of W workers, results are collected either in       *)
(* submission order (Pool.imap / Pool.map: fitting.py l.1127, kramers_     *)
(* kronig/exploratory.py l.226, l.1252) or in completion order             *)
(* (Pool.imap_unordered: zhit/reconstruction.py l.146, zhit/offset.py      *)
(* l.163, drt/bht.py l.1089), the collected list is sorted (stable) by a   *)
(* key and the head is the winner.  Z-HIT chains two such stages: the      *)
(* order in which stage 1 was collected is the order in which stage 2 is   *)
(* submitted, so `order` (the submission order) is arbitrary as well.      *)
(*                                                                         *)
(* Task t has label t (its position in the canonical option list) and a    *)
(* key key[t] (its pseudo chi-squared rank; equal ranks = exact ties).     *)
(***************************************************************************)
EXTENDS Integers, Sequences, FiniteSets, TLC

CONSTANTS
    T,          \* number of tasks
    W,          \* number of workers
    MaxKey,     \* keys are ranks 1..MaxKey
    Unordered,  \* TRUE: results are collected in completion order (imap_unordered)
    TieBreak    \* TRUE: the sort key is <<key, label>> (total); FALSE: the key alone (stable sort decides ties)

VARIABLES key, order, pending, running, done, collected, winner
vars == <<key, order, pending, running, done, collected, winner>>

Tasks == 1..T
Perms == {p \in [1..T -> Tasks] : \A i, j \in 1..T : i # j => p[i] # p[j]}
None == 0

Init ==
    /\ key \in [Tasks -> 1..MaxKey]
    /\ order \in Perms                      \* submission order
    /\ pending = order
    /\ running = {}
    /\ done = <<>>                          \* completion order
    /\ collected = <<>>
    /\ winner = None

Start ==
    /\ pending # <<>> /\ Cardinality(running) < W
    /\ running' = running \cup {Head(pending)}
    /\ pending' = Tail(pending)
    /\ UNCHANGED <<key, order, done, collected, winner>>

Finish(t) ==
    /\ t \in running
    /\ running' = running \ {t}
    /\ done' = Append(done, t)
    /\ UNCHANGED <<key, order, pending, collected, winner>>

InSeq(x, s) == \E i \in 1..Len(s) : s[i] = x

\* the consumer takes the next available result
Collect ==
    /\ Len(collected) < T
    /\ LET next == IF Unordered THEN (IF Len(done) > Len(collected) THEN done[Len(collected) + 1] ELSE None)
                   ELSE (IF InSeq(order[Len(collected) + 1], done) THEN order[Len(collected) + 1] ELSE None)
       IN /\ next # None
          /\ collected' = Append(collected, next)
    /\ UNCHANGED <<key, order, pending, running, done, winner>>

\* stable sort by the key and take the head = the first minimal element of `collected`
Less(a, b) == IF TieBreak THEN key[a] < key[b] \/ (key[a] = key[b] /\ a < b) ELSE key[a] < key[b]
HeadAfterStableSort(s) ==
    LET best == CHOOSE i \in 1..Len(s) : /\ \A j \in 1..Len(s) : ~Less(s[j], s[i])
                                         /\ \A j \in 1..(i - 1) : Less(s[i], s[j])
    IN s[best]

Pick ==
    /\ Len(collected) = T /\ winner = None
    /\ winner' = HeadAfterStableSort(collected)
    /\ UNCHANGED <<key, order, pending, running, done, collected>>

Next == Start \/ (\E t \in Tasks : Finish(t)) \/ Collect \/ Pick
Spec == Init /\ [][Next]_vars

\* ---------------------------------------------------------------------------
\* the serial run: canonical submission order 1..T, one task at a time
Canonical == [i \in 1..T |-> i]
SerialWinner == HeadAfterStableSort(Canonical)

\* the winner is the serial run's winner, whatever the submission order and the schedule
WinnerIndependent == winner # None => winner = SerialWinner
\* weaker: for the canonical submission order (single-stage fan-outs)
WinnerIndependentOfSchedule == (winner # None /\ order = Canonical) => winner = SerialWinner
\* the numbers (the key of the winner) never depend on anything
BestKeyIndependent == winner # None => key[winner] = key[SerialWinner]
=============================================================================
