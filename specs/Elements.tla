------------------------------ MODULE Elements ------------------------------
(***************************************************************************)
(* C02 (the discrete parts; the numeric equality itself is a differential  *)
(* comparison made by the harness at the points this module enumerates).   *)
(*                                                                         *)
(* 1. The general transmission line model has two hand-maintained copies   *)
(*    of one case analysis over its five sub-circuits (each open, short or *)
(*    finite): TransmissionLineModel._impedance (transmission_line_model   *)
(*    .py l.653-741) and ._sympy (l.850-1010).  NumericDispatch and        *)
(*    SymbolicDispatch transcribe them; they must pick the same equation   *)
(*    or the same refusal for all 243 configurations.                      *)
(* 2. _calculate_impedances (base.py l.100-150) evaluates the entries of a *)
(*    frequency vector that are 0 or infinite through the symbolic limit   *)
(*    and scatters them back: Scatter transcribes the index bookkeeping.   *)
(* 3. The corner grid of every registered element class: each parameter    *)
(*    at its lower corner, default, upper corner or an off-default value.  *)
(***************************************************************************)
EXTENDS Integers, Sequences, FiniteSets, TLC

CONSTANTS Part,        \* "tlm" | "corners" | "scatter"
          Arity,       \* number of parameters of the class under test (corners)
          MaxOff       \* at most this many parameters away from their default at once (corners)

VARIABLES cfg, expect
vars == <<cfg, expect>>

St == {"open", "short", "fin"}

\* ---- 1. dispatch -----------------------------------------------------------------
Refusal(x1, x2, ze) ==
    IF x1 = "open" THEN "X_1 cannot be open"
    ELSE IF x2 = "open" THEN "X_2 cannot be open"
    ELSE IF x1 = "short" /\ x2 = "short" THEN "X_1 and X_2 both short"
    ELSE IF ze = "open" THEN "Zeta cannot be open"
    ELSE IF ze = "short" THEN "Zeta cannot be short"
    ELSE ""

NumericDispatch(x1, x2, za, zb, ze) ==
    IF Refusal(x1, x2, ze) # "" THEN Refusal(x1, x2, ze)
    ELSE IF za = "open" /\ zb = "open" THEN (IF x1 = "short" \/ x2 = "short" THEN "eq20" ELSE "eq8")
    ELSE IF za = "open" \/ zb = "open"
    THEN IF x1 = "short" \/ x2 = "short"
         THEN (IF (IF za = "open" THEN zb = "short" ELSE za = "short") THEN "eq18_variant" ELSE "eq18")
         ELSE "eq17"
    ELSE IF x1 = "short" \/ x2 = "short" THEN "eq19"
    ELSE "eq16"

SymbolicDispatch(x1, x2, za, zb, ze) ==
    IF Refusal(x1, x2, ze) # "" THEN Refusal(x1, x2, ze)
    ELSE IF za = "open" /\ zb = "open" THEN (IF x1 = "short" \/ x2 = "short" THEN "eq20" ELSE "eq8")
    ELSE IF za = "open" \/ zb = "open"
    THEN LET z == IF za = "open" THEN zb ELSE za IN
         IF x1 = "short" \/ x2 = "short" THEN (IF z = "short" THEN "eq18_variant" ELSE "eq18") ELSE "eq17"
    ELSE IF x1 = "short" \/ x2 = "short" THEN "eq19"
    ELSE "eq16"

\* Which sub-circuits the symbolic expression of a configuration mentions (C20: one variable per parameter).
\* Every finite sub-circuit the dispatched equation reads, with one named deviation: with both phases
\* finite and both boundaries short, eq. 16 collapses to L*X_1*X_2/(X_1+X_2) - the interfacial impedance
\* cancels from the numeric impedance as well, so no variable of Zeta can appear.
Roles == <<"X_1", "X_2", "Z_A", "Z_B", "Zeta">>
TlmMentions(c) ==
    LET st == <<c.x1, c.x2, c.za, c.zb, c.ze>>
        finite == {Roles[k] : k \in {j \in 1..5 : st[j] = "fin"}}
    IN IF NumericDispatch(c.x1, c.x2, c.za, c.zb, c.ze) = "eq16" /\ c.za = "short" /\ c.zb = "short"
       THEN finite \ {"Zeta"} ELSE finite

TlmConfigs == [part : {"tlm"}, x1 : St, x2 : St, za : St, zb : St, ze : St, fin : {"R", "RC", "(RC)"}]

\* ---- 2. scatter ------------------------------------------------------------------
\* frequencies: 0 = zero, 9 = infinite, 1..2 = finite values
FreqVecs == UNION {[1..n -> {0, 1, 2, 9}] : n \in 1..4}
IsLimit(x) == x \in {0, 9}
\* the code: Z = zeros; Z[limit_indices] = limits; indices = delete(indices, limit_indices); Z[indices] = func(f[indices])
Scatter(fs) ==
    LET lim == {k \in 1..Len(fs) : IsLimit(fs[k])}
        rest == SelectSeq([k \in 1..Len(fs) |-> k], LAMBDA k : k \notin lim)      \* delete(indices, limit_indices)
        finvals == [j \in 1..Len(rest) |-> <<"fin", fs[rest[j]]>>]                   \* func(f[indices]), element-wise
        PosInRest(k) == CHOOSE j \in 1..Len(rest) : rest[j] = k
    IN [k \in 1..Len(fs) |-> IF k \in lim THEN <<"lim", fs[k]>> ELSE finvals[PosInRest(k)]]
ScatterConfigs == [part : {"scatter"}, fs : FreqVecs]

\* ---- 3. corners -------------------------------------------------------------------
Corner == {"lo", "def", "hi", "off"}
CornerConfigs ==
    {c \in [part : {"corners"}, v : [1..Arity -> Corner]] : Cardinality({i \in 1..Arity : c.v[i] # "def"}) <= MaxOff}

Configs == CASE Part = "tlm" -> TlmConfigs [] Part = "scatter" -> ScatterConfigs [] Part = "corners" -> CornerConfigs

Init ==
    /\ cfg \in Configs
    /\ expect = IF Part = "tlm" THEN <<NumericDispatch(cfg.x1, cfg.x2, cfg.za, cfg.zb, cfg.ze), TlmMentions(cfg)>>
                ELSE IF Part = "scatter" THEN Scatter(cfg.fs) ELSE <<>>
Next == FALSE /\ UNCHANGED vars
Spec == Init /\ [][Next]_vars

\* ---- properties ---------------------------------------------------------------------
DispatchTablesAgree ==
    Part = "tlm" => NumericDispatch(cfg.x1, cfg.x2, cfg.za, cfg.zb, cfg.ze) = SymbolicDispatch(cfg.x1, cfg.x2, cfg.za, cfg.zb, cfg.ze)
\* every position holds the value for its own frequency
ScatterIsPointwise ==
    Part = "scatter" => \A k \in 1..Len(cfg.fs) : expect[k] = <<IF IsLimit(cfg.fs[k]) THEN "lim" ELSE "fin", cfg.fs[k]>>
=============================================================================
