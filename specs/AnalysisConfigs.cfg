SPECIFICATION Spec
