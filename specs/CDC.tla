-------------------------------- MODULE CDC --------------------------------
(***************************************************************************)
(* Circuit description codes: the scanner, the shift/reduce parser with    *)
(* its single shared stack, and the printer of pyimpspec                   *)
(*   src/pyimpspec/circuit/tokenizer.py  (Lex..)                           *)
(*   src/pyimpspec/circuit/parser.py     (P..)                              *)
(*   src/pyimpspec/circuit/base.py to_string, series.py, parallel.py,      *)
(*   circuit.py serialize               (Print..)                          *)
(* as pure operators over sequences of one-character strings.  Used by     *)
(* CDCTotal.tla (C04: every input is accepted or refused properly) and     *)
(* CDCRound.tla (C03: print/parse round trip and spelling invariance).     *)
(*                                                                         *)
(* Numbers are exact decimals m * 10^e (plus +-inf); float() overflow to   *)
(* inf and the parser's NaN ("limit not written") are modelled.            *)
(***************************************************************************)
EXTENDS Integers, Sequences, FiniteSets, TLC

\* ---------------------------------------------------------------------------
\* characters
\* ---------------------------------------------------------------------------
Digits == {"0", "1", "2", "3", "4", "5", "6", "7", "8", "9"}
Lower == {"a", "b", "c", "d", "e", "f", "g", "h", "i", "j", "k", "l", "m", "n", "o", "p", "q", "r", "s", "t",
          "u", "v", "w", "x", "y", "z"}
Upper == {"A", "B", "C", "D", "E", "F", "G", "H", "I", "J", "K", "L", "M", "N", "O", "P", "Q", "R", "S", "T",
          "U", "V", "W", "X", "Y", "Z"}
Letters == Lower \cup Upper
Special == {"[", "]", "(", ")", "{", "}", "=", "/", "%", ",", ":", "!"}
White == {" ", "\t", "\n"}
NonAscii == {"é"}        \* any non-ASCII character behaves the same

DigitVal(c) ==
    CASE c = "0" -> 0 [] c = "1" -> 1 [] c = "2" -> 2 [] c = "3" -> 3 [] c = "4" -> 4
      [] c = "5" -> 5 [] c = "6" -> 6 [] c = "7" -> 7 [] c = "8" -> 8 [] c = "9" -> 9

At(cs, i) == IF i >= 1 /\ i <= Len(cs) THEN cs[i] ELSE "EOF"     \* "EOF" plays Python's None

\* ---------------------------------------------------------------------------
\* exact decimals
\* ---------------------------------------------------------------------------
NotGiven == [g |-> FALSE, inf |-> FALSE, neg |-> FALSE, m |-> 0, e |-> 0]     \* the parser's nan
PInf == [g |-> TRUE, inf |-> TRUE, neg |-> FALSE, m |-> 1, e |-> 0]
NInf == [g |-> TRUE, inf |-> TRUE, neg |-> TRUE, m |-> 1, e |-> 0]

RECURSIVE NumDigits(_)
NumDigits(m) == IF m < 10 THEN 1 ELSE 1 + NumDigits(m \div 10)
RECURSIVE Pow10(_)
Pow10(n) == IF n <= 0 THEN 1 ELSE 10 * Pow10(n - 1)

RECURSIVE Strip0(_, _)
Strip0(m, e) == IF m # 0 /\ m % 10 = 0 THEN Strip0(m \div 10, e + 1) ELSE <<m, e>>

\* normal form; magnitudes float() cannot hold become inf / 0
Dec(neg, m, e) ==
    IF m = 0 THEN [g |-> TRUE, inf |-> FALSE, neg |-> FALSE, m |-> 0, e |-> 0]
    ELSE LET me == Strip0(m, e)
             adj == NumDigits(me[1]) + me[2] - 1
         IN IF adj > 308 THEN (IF neg THEN NInf ELSE PInf)
            ELSE IF adj < -324 THEN [g |-> TRUE, inf |-> FALSE, neg |-> FALSE, m |-> 0, e |-> 0]
            ELSE [g |-> TRUE, inf |-> FALSE, neg |-> neg, m |-> me[1], e |-> me[2]]

Zero == Dec(FALSE, 0, 0)
Sign(d) == IF ~d.inf /\ d.m = 0 THEN 0 ELSE IF d.neg THEN -1 ELSE 1

CmpMag(a, b) ==
    IF a.inf /\ b.inf THEN 0 ELSE IF a.inf THEN 1 ELSE IF b.inf THEN -1
    ELSE LET aa == NumDigits(a.m) + a.e
             bb == NumDigits(b.m) + b.e
         IN IF aa # bb THEN (IF aa > bb THEN 1 ELSE -1)
            ELSE LET em == IF a.e < b.e THEN a.e ELSE b.e
                     x == a.m * Pow10(a.e - em)
                     y == b.m * Pow10(b.e - em)
                 IN IF x > y THEN 1 ELSE IF x < y THEN -1 ELSE 0

\* -1 / 0 / 1 for two given numbers
Cmp(a, b) ==
    LET sa == Sign(a)
        sb == Sign(b)
    IN IF sa # sb THEN (IF sa > sb THEN 1 ELSE -1)
       ELSE IF sa = 0 THEN 0 ELSE sa * CmpMag(a, b)

\* value * limit / 100  (inf * 0 is nan = "not written")
Percent(v, l) ==
    IF v.inf \/ l.inf
    THEN (IF Sign(v) = 0 \/ Sign(l) = 0 THEN NotGiven ELSE IF v.neg # l.neg THEN NInf ELSE PInf)
    ELSE Dec(v.neg # l.neg, v.m * l.m, v.e + l.e - 2)

\* ---------------------------------------------------------------------------
\* the scanner (tokenizer.py)
\* token = [k |-> kind, s |-> characters (id, label), d |-> number (num, fnum)]
\* kinds: the special characters themselves, "id", "label", "num", "fnum"
\* ---------------------------------------------------------------------------
Tok(k, s, d) == [k |-> k, s |-> s, d |-> d]

RECURSIVE ScanWhile(_, _, _)
ScanWhile(cs, i, S) == IF i <= Len(cs) /\ cs[i] \in S THEN ScanWhile(cs, i + 1, S) ELSE i

\* label mode: up to the first "}" that is not inside inner braces, or the end of input
RECURSIVE LabelEnd(_, _, _)
LabelEnd(cs, i, depth) ==
    IF i > Len(cs) THEN i
    ELSE IF cs[i] = "{" THEN LabelEnd(cs, i + 1, depth + 1)
    ELSE IF cs[i] = "}" THEN (IF depth <= 0 THEN i ELSE LabelEnd(cs, i + 1, depth - 1))
    ELSE LabelEnd(cs, i + 1, depth)

RECURSIVE DigitsToNat(_)
DigitsToNat(ds) == IF ds = <<>> THEN 0 ELSE 10 * DigitsToNat(SubSeq(ds, 1, Len(ds) - 1)) + DigitVal(ds[Len(ds)])

RECURSIVE DropLeadingZeros(_)
DropLeadingZeros(ds) == IF ds # <<>> /\ ds[1] = "0" THEN DropLeadingZeros(Tail(ds)) ELSE ds
RECURSIVE DropTrailingZeros(_)
DropTrailingZeros(ds) == IF ds # <<>> /\ ds[Len(ds)] = "0" THEN DropTrailingZeros(SubSeq(ds, 1, Len(ds) - 1)) ELSE ds

\* float() of  [-] int [. frac] [e [+-] exp]
ToDecimal(neg, int, frac, expneg, exp) ==
    LET fr == DropTrailingZeros(frac)
        sig == DropLeadingZeros(int \o fr)
        ex == IF Len(DropLeadingZeros(exp)) > 4 THEN 9999 ELSE DigitsToNat(DropLeadingZeros(exp))
        e == (IF expneg THEN 0 - ex ELSE ex) - Len(fr)
        \* TLC integers are 32 bit: keep 9 significant digits (longer literals are truncated, not rounded;
        \* they only arise from mutated inputs and at worst cause DRIFT in a limit comparison)
        cut == IF Len(sig) > 9 THEN Len(sig) - 9 ELSE 0
        sig9 == SubSeq(sig, 1, Len(sig) - cut)
    IN IF sig = <<>> THEN Zero ELSE Dec(neg, DigitsToNat(sig9), e + cut)

RECURSIVE Lex(_, _, _)
Lex(cs, i, toks) ==
    IF i > Len(cs) THEN [toks |-> toks, err |-> ""]
    ELSE LET c == cs[i] IN
    LET prev == IF toks = <<>> THEN "" ELSE toks[Len(toks)].k IN
    IF prev = ":" /\ c \in Letters \cup Digits \cup {"_"}
    THEN \* a letter, digit or underscore after the colon starts the label (tokenizer.label)
         LET j == LabelEnd(cs, i, 0) IN Lex(cs, j, Append(toks, Tok("label", SubSeq(cs, i, j - 1), NotGiven)))
    ELSE IF c \in Special THEN Lex(cs, i + 1, Append(toks, Tok(c, <<>>, NotGiven)))
    ELSE IF c \in Letters THEN
        LET valid == IF prev \in {"{", ","} THEN Letters \cup Digits \cup {"_"} ELSE Lower \cup Digits \cup {"_"}
            j == ScanWhile(cs, i + 1, valid)
        IN Lex(cs, j, Append(toks, Tok("id", SubSeq(cs, i, j - 1), NotGiven)))
    ELSE IF c \in Digits \/ (c = "-" /\ At(cs, i + 1) \in Digits) THEN
        LET neg == (c = "-")
            i0 == IF neg THEN i + 1 ELSE i
            i1 == ScanWhile(cs, i + 1, Digits)
            dot == At(cs, i1) = "."
            i2 == IF dot THEN ScanWhile(cs, i1 + 1, Digits) ELSE i1
            hasExp == At(cs, i2) \in {"e", "E"}
            sgn == hasExp /\ At(cs, i2 + 1) \in {"-", "+"}
            i3 == IF hasExp THEN (IF sgn THEN i2 + 2 ELSE i2 + 1) ELSE i2
            i4 == IF hasExp THEN ScanWhile(cs, i3, Digits) ELSE i2
            fixed == At(cs, i4) \in {"f", "F"}
            i5 == IF fixed THEN i4 + 1 ELSE i4
            d == ToDecimal(neg, SubSeq(cs, i0, i1 - 1), IF dot THEN SubSeq(cs, i1 + 1, i2 - 1) ELSE <<>>,
                           hasExp /\ At(cs, i2 + 1) = "-", IF hasExp THEN SubSeq(cs, i3, i4 - 1) ELSE <<>>)
        IN IF hasExp /\ i4 = i3
           THEN [toks |-> toks, err |-> "ValueError"]          \* float("1e") / float("1e-")
           ELSE Lex(cs, i5, Append(toks, Tok(IF fixed THEN "fnum" ELSE "num", <<>>, d)))
    ELSE IF c \in White THEN Lex(cs, i + 1, toks)
    ELSE [toks |-> toks, err |-> "UnexpectedCharacter"]

Tokenize(cs) == Lex(cs, 1, <<>>)

\* ---------------------------------------------------------------------------
\* element classes known to the model (mirrors the registry for R, C, L, Q, Tlm)
\* ---------------------------------------------------------------------------
S1(a) == <<a>>
PDef(key, lo, v, hi, fx) == [key |-> key, lo |-> lo, v |-> v, hi |-> hi, fx |-> fx]

\* stack items / tree nodes: uniformly shaped records
\*   t = "tok"  : k
\*   t = "elem" : sym, ps (params), subs, label
\*   t = "conn" : kind ("S" | "P"), items
Node(t, k, sym, ps, subs, label, kind, items) ==
    [t |-> t, k |-> k, sym |-> sym, ps |-> ps, subs |-> subs, label |-> label, kind |-> kind, items |-> items]
TokItem(k) == Node("tok", k, <<>>, <<>>, <<>>, <<>>, "", <<>>)
Elem(sym, ps, subs, label) == Node("elem", "", sym, ps, subs, label, "", <<>>)
Conn(kind, items) == Node("conn", "", <<>>, <<>>, <<>>, <<>>, kind, items)
SubDef(key, open, con) == [key |-> key, open |-> open, con |-> con]
NoConn == Conn("S", <<>>)            \* also the value of a shorted subcircuit

SymR == <<"R">>
SymC == <<"C">>
SymL == <<"L">>
SymQ == <<"Q">>
SymTlm == <<"T", "l", "m">>

ParamDefs(sym) ==
    CASE sym = SymR -> <<PDef(<<"R">>, Zero, Dec(FALSE, 1, 3), PInf, FALSE)>>
      [] sym = SymC -> <<PDef(<<"C">>, Dec(FALSE, 1, -24), Dec(FALSE, 1, -6), Dec(FALSE, 1, 3), FALSE)>>
      [] sym = SymL -> <<PDef(<<"L">>, Zero, Dec(FALSE, 1, -6), Dec(FALSE, 1, 3), FALSE)>>
      [] sym = SymQ -> <<PDef(<<"Y">>, Dec(FALSE, 1, -24), Dec(FALSE, 1, -6), Dec(FALSE, 1, 6), FALSE),
                         PDef(<<"n">>, Zero, Dec(FALSE, 95, -2), Dec(FALSE, 1, 0), FALSE)>>
      [] sym = SymTlm -> <<PDef(<<"L">>, Dec(FALSE, 1, -24), Dec(FALSE, 1, 0), PInf, TRUE)>>

DefaultElem(sym, ps) == Elem(sym, ps, <<>>, <<>>)

SubDefs(sym) ==
    IF sym = SymTlm
    THEN <<SubDef(<<"X", "_", "1">>, FALSE, Conn("S", <<DefaultElem(SymR, <<PDef(<<"R">>, Zero, Dec(FALSE, 1, 0), PInf, FALSE)>>)>>)),
           SubDef(<<"X", "_", "2">>, FALSE, NoConn),
           SubDef(<<"Z", "_", "A">>, TRUE, NoConn),
           SubDef(<<"Z", "_", "B">>, TRUE, NoConn),
           SubDef(<<"Z", "e", "t", "a">>, FALSE,
                  Conn("S", <<DefaultElem(SymQ, <<PDef(<<"Y">>, Dec(FALSE, 1, -24), Dec(FALSE, 5, -3), Dec(FALSE, 1, 6), FALSE),
                                                   PDef(<<"n">>, Zero, Dec(FALSE, 8, -1), Dec(FALSE, 1, 0), FALSE)>>)>>))>>
    ELSE <<>>

KnownSyms == {SymR, SymC, SymL, SymQ, SymTlm}

KeysOf(defs) == [i \in 1..Len(defs) |-> defs[i].key]
InSeq(x, s) == \E i \in 1..Len(s) : s[i] = x
RemoveFromSeq(x, s) == SelectSeq(s, LAMBDA y : y # x)
Find(key, defs) == defs[CHOOSE i \in 1..Len(defs) : defs[i].key = key]

\* ---------------------------------------------------------------------------
\* the parser (parser.py).  State: remaining tokens, the shared stack (top = index 1), error.
\* Every operator takes and returns such a state and does nothing once err is set.
\* ---------------------------------------------------------------------------
PS(toks, stack, err) == [toks |-> toks, stack |-> stack, err |-> err]
Fail(s, e) == [s EXCEPT !.err = e]
Failed(s) == s.err # ""

Accept(s, k) == s.toks # <<>> /\ s.toks[1].k = k
\* expect(Class): InsufficientTokens at the end, UnexpectedToken otherwise
ExpectErr(s, k) == IF s.toks = <<>> THEN "InsufficientTokens" ELSE IF s.toks[1].k # k THEN "UnexpectedToken" ELSE ""
PopTok(s) == [s EXCEPT !.toks = Tail(@)]
Push(s, item) == [s EXCEPT !.stack = <<item>> \o @]
IsNumTok(tk) == tk.k \in {"num", "fnum"}

Strip(cs) ==
    LET RECURSIVE L(_)
        L(x) == IF x # <<>> /\ x[1] \in White THEN L(Tail(x)) ELSE x
        RECURSIVE R(_)
        R(x) == IF x # <<>> /\ x[Len(x)] \in White THEN R(SubSeq(x, 1, Len(x) - 1)) ELSE x
    IN R(L(cs))

\* --- param_limit -------------------------------------------------------------
\* returns [s, d]
PLimit(s, value, upper) ==
    IF ~Accept(s, "num")
    THEN IF ExpectErr(s, "id") # "" THEN [s |-> Fail(s, ExpectErr(s, "id")), d |-> NotGiven]
         ELSE IF s.toks[1].s # <<"i", "n", "f">> THEN [s |-> Fail(PopTok(s), "ValueError"), d |-> NotGiven]
         ELSE [s |-> PopTok(s), d |-> IF upper THEN PInf ELSE NInf]
    ELSE LET lim == s.toks[1].d
             s1 == PopTok(s)
         IN IF Accept(s1, "%") THEN [s |-> PopTok(s1), d |-> Percent(value, lim)]
            ELSE [s |-> s1, d |-> lim]

\* --- param ---------------------------------------------------------------------
\* returns [s, v, lo, hi, fx]
PParam(s) ==
    IF s.toks = <<>> \/ ~IsNumTok(s.toks[1])
    THEN [s |-> Fail(s, "ExpectedNumericValue"), v |-> NotGiven, lo |-> NotGiven, hi |-> NotGiven, fx |-> FALSE]
    ELSE LET v == s.toks[1].d
             fx == s.toks[1].k = "fnum"
             s1 == PopTok(s)
         IN IF ~Accept(s1, "/") THEN [s |-> s1, v |-> v, lo |-> NotGiven, hi |-> NotGiven, fx |-> fx]
            ELSE LET s2 == PopTok(s1) IN
                 IF Accept(s2, "/")
                 THEN LET r == PLimit(PopTok(s2), v, TRUE) IN [s |-> r.s, v |-> v, lo |-> NotGiven, hi |-> r.d, fx |-> fx]
                 ELSE LET r == PLimit(s2, v, FALSE) IN
                      IF Failed(r.s) \/ ~Accept(r.s, "/") THEN [s |-> r.s, v |-> v, lo |-> r.d, hi |-> NotGiven, fx |-> fx]
                      ELSE LET q == PLimit(PopTok(r.s), v, TRUE) IN [s |-> q.s, v |-> v, lo |-> r.d, hi |-> q.d, fx |-> fx]

\* --- building the element: Class(**parameters), set_label, _set_limits, set_fixed -------
\* set_label: ASCII only, and not made up of digits only
LabelOK(lab) == /\ \A i \in 1..Len(lab) : lab[i] \notin NonAscii
                /\ (lab # <<>> => \E i \in 1..Len(lab) : lab[i] \notin Digits)

\* final [lo, hi] of one parameter or "refused"
Lim(ok, lo, hi) == [ok |-> ok, lo |-> lo, hi |-> hi]
LimitsFor(def, glo, ghi) ==
    IF glo.g /\ ghi.g
    THEN IF Cmp(ghi, NInf) <= 0 \/ Cmp(glo, ghi) >= 0 THEN Lim(FALSE, glo, ghi) ELSE Lim(TRUE, glo, ghi)
    ELSE IF ghi.g THEN Lim(Cmp(ghi, def.lo) > 0, def.lo, ghi)
    ELSE IF glo.g THEN Lim(Cmp(glo, def.hi) < 0, glo, def.hi)
    ELSE Lim(TRUE, def.lo, def.hi)

\* given: Seq of [key, v, lo, hi, fx]; gsubs: Seq of SubDef
BuildElem(sym, given, gsubs, label) ==
    LET defs == ParamDefs(sym)
        sdefs == SubDefs(sym)
        lab == Strip(label)
        Given(key) == \E i \in 1..Len(given) : given[i].key = key
        G(key) == given[CHOOSE i \in 1..Len(given) : given[i].key = key]
        lim(i) == IF Given(defs[i].key) THEN LimitsFor(defs[i], G(defs[i].key).lo, G(defs[i].key).hi)
                  ELSE Lim(TRUE, defs[i].lo, defs[i].hi)
        ps == [i \in 1..Len(defs) |->
                 IF Given(defs[i].key)
                 THEN PDef(defs[i].key, lim(i).lo, G(defs[i].key).v, lim(i).hi, G(defs[i].key).fx)
                 ELSE defs[i]]
        SGiven(key) == \E i \in 1..Len(gsubs) : gsubs[i].key = key
        SG(key) == gsubs[CHOOSE i \in 1..Len(gsubs) : gsubs[i].key = key]
        subs == [i \in 1..Len(sdefs) |-> IF SGiven(sdefs[i].key) THEN SG(sdefs[i].key) ELSE sdefs[i]]
    IN IF ~LabelOK(lab) \/ (\E i \in 1..Len(defs) : ~lim(i).ok)
       THEN [ok |-> FALSE, e |-> Elem(sym, <<>>, <<>>, <<>>)]          \* ValueError from set_label / a limit setter
       ELSE [ok |-> TRUE, e |-> Elem(sym, ps, subs, lab)]

\* --- the mutually recursive part ----------------------------------------------------
RECURSIVE PMain(_), PConnection(_, _, _, _), PUntil(_, _), PElement(_), PParams(_, _, _, _, _, _), PSubcircuit(_), PBare(_, _)

\* main_loop
PMain(s) ==
    IF Failed(s) THEN s
    ELSE IF Accept(s, "[") THEN PConnection(s, "[", "]", "S")
    ELSE IF Accept(s, "(") THEN PConnection(s, "(", ")", "P")
    ELSE IF Accept(s, "id") THEN PElement(s)
    ELSE IF s.toks # <<>> THEN Fail(s, "UnexpectedToken")
    ELSE Fail(s, "InsufficientTokens")

\* while not accept(Closing): main_loop()
PUntil(s, close) ==
    IF Failed(s) \/ Accept(s, close) THEN s ELSE PUntil(PMain(s), close)

\* pop the stack down to the opening token; children of the same kind are spliced in
\* returns <<items in source order, rest of stack>> or <<"none">>
RECURSIVE PopToOpening(_, _, _, _)
PopToOpening(stack, open, kind, acc) ==
    IF stack = <<>> THEN <<acc, <<>>, FALSE>>
    ELSE LET it == stack[1] IN
         IF it.t = "tok" /\ it.k = open THEN <<acc, Tail(stack), TRUE>>
         ELSE IF it.t = "conn" /\ it.kind = kind THEN PopToOpening(Tail(stack), open, kind, it.items \o acc)
         ELSE PopToOpening(Tail(stack), open, kind, <<it>> \o acc)

PConnection(s, open, close, kind) ==
    LET s1 == Push(PopTok(s), TokItem(open)) IN
    IF Accept(s1, close) THEN Fail(s1, "ConnectionWithoutElements")
    ELSE LET s2 == PUntil(s1, close) IN
         IF Failed(s2) THEN s2
         ELSE LET s3 == PopTok(s2)
                  r == PopToOpening(s3.stack, open, kind, <<>>)
                  items == r[1]
              IN IF Len(items) < 1 THEN Fail(s3, "ValueError")
                 ELSE IF kind = "P" /\ Len(items) < 2 THEN Fail(s3, "InsufficientElementsInParallelConnection")
                 ELSE IF \E i \in 1..Len(items) : items[i].t = "tok" THEN Fail(s3, "TypeError")
                 ELSE IF kind = "S" /\ Len(items) = 1 THEN [s3 EXCEPT !.stack = <<items[1]>> \o r[2]]
                 ELSE [s3 EXCEPT !.stack = <<Conn(kind, items)>> \o r[2]]

\* element
PElement(s) ==
    LET sym == s.toks[1].s
        s1 == PopTok(s)
    IN IF sym \notin KnownSyms THEN Fail(s1, "InvalidElementSymbol")
       ELSE IF ~Accept(s1, "{") THEN Push(s1, BuildElem(sym, <<>>, <<>>, <<>>).e)
       ELSE LET s2 == PopTok(s1) IN
            IF Accept(s2, ":") THEN PParams(s2, sym, <<>>, <<>>, <<>>, <<>>)
            ELSE PParams(s2, sym, KeysOf(ParamDefs(sym)), KeysOf(SubDefs(sym)), <<>>, <<>>)

\* the `while parameter_keys or subcircuit_keys` loop and what follows it.
\* pk / sk: keys still available; given / gsubs: definitions read so far
PParams(s, sym, pk, sk, given, gsubs) ==
    LET Finish(t) ==       \* optional label, closing brace, construct
            LET t1 == IF Accept(t, ":") THEN PopTok(t) ELSE t
                haslabel == Accept(t, ":")
                e1 == IF haslabel THEN ExpectErr(t1, "label") ELSE ""
                lab == IF haslabel /\ e1 = "" THEN t1.toks[1].s ELSE <<>>
                t2 == IF haslabel /\ e1 = "" THEN PopTok(t1) ELSE t1
            IN IF e1 # "" THEN Fail(t1, e1)
               ELSE IF ExpectErr(t2, "}") # "" THEN Fail(t2, ExpectErr(t2, "}"))
               ELSE LET el == BuildElem(sym, given, gsubs, lab) IN
                    IF ~el.ok THEN Fail(PopTok(t2), "ValueError") ELSE Push(PopTok(t2), el.e)
    IN
    IF Failed(s) THEN s
    ELSE IF pk = <<>> /\ sk = <<>> THEN Finish(s)
    ELSE IF ~Accept(s, "id") THEN Fail(s, "ExpectedParameterIdentifier")
    ELSE LET key == s.toks[1].s
             s1 == PopTok(s)
         IN IF ExpectErr(s1, "=") # "" THEN Fail(s1, ExpectErr(s1, "="))
            ELSE LET s2 == PopTok(s1)
                     AfterDef(t, pk2, sk2, given2, gsubs2) ==
                        IF Failed(t) THEN t
                        ELSE IF Accept(t, ",")
                        THEN IF pk2 = <<>> /\ sk2 = <<>> THEN Fail(t, "TooManyParameterDefinitions")
                             ELSE PParams(PopTok(t), sym, pk2, sk2, given2, gsubs2)
                        ELSE PParams(t, sym, <<>>, <<>>, given2, gsubs2)       \* break
                 IN IF Accept(s2, "[") \/ Accept(s2, "(") \/ Accept(s2, "id")
                    THEN IF \E i \in 1..Len(gsubs) : gsubs[i].key = key THEN Fail(s2, "DuplicateParameterDefinition")
                         ELSE IF ~InSeq(key, sk) THEN Fail(s2, "InvalidParameterDefinition")
                         ELSE LET r == PSubcircuit(s2) IN
                              IF Failed(r.s) THEN r.s
                              ELSE AfterDef(r.s, pk, RemoveFromSeq(key, sk), given, Append(gsubs, SubDef(key, r.open, r.con)))
                    ELSE IF \E i \in 1..Len(given) : given[i].key = key THEN Fail(s2, "DuplicateParameterDefinition")
                         ELSE IF ~InSeq(key, pk) THEN Fail(s2, "InvalidParameterDefinition")
                         ELSE LET r == PParam(s2) IN
                              IF Failed(r.s) THEN r.s
                              ELSE IF r.lo.g /\ Cmp(r.lo, r.v) > 0 THEN Fail(r.s, "InvalidParameterLowerLimit")
                              ELSE IF r.hi.g /\ Cmp(r.hi, r.v) < 0 THEN Fail(r.s, "InvalidParameterUpperLimit")
                              ELSE AfterDef(r.s, RemoveFromSeq(key, pk), sk,
                                            Append(given, [key |-> key, v |-> r.v, lo |-> r.lo, hi |-> r.hi, fx |-> r.fx]), gsubs)

\* subcircuit: returns [s, open, con]
PSubcircuit(s) ==
    IF Accept(s, "id")
    THEN LET w == s.toks[1].s IN
         IF w = <<"z", "e", "r", "o">> \/ w = <<"s", "h", "o", "r", "t">> THEN [s |-> PopTok(s), open |-> FALSE, con |-> NoConn]
         ELSE IF w = <<"i", "n", "f">> \/ w = <<"o", "p", "e", "n">> THEN [s |-> PopTok(s), open |-> TRUE, con |-> NoConn]
         ELSE LET n == Len(s.stack)
                  s1 == PBare(s, n)
              IN IF Failed(s1) THEN [s |-> s1, open |-> FALSE, con |-> NoConn]
                 ELSE LET k == Len(s1.stack) - n      \* the items this list pushed, newest first
                          mine == [i \in 1..k |-> s1.stack[k + 1 - i]]
                      IN [s |-> [s1 EXCEPT !.stack = SubSeq(@, k + 1, Len(@))], open |-> FALSE, con |-> Conn("S", mine)]
    ELSE LET s1 == IF Accept(s, "[") THEN PConnection(s, "[", "]", "S") ELSE PConnection(s, "(", ")", "P") IN
         IF Failed(s1) THEN [s |-> s1, open |-> FALSE, con |-> NoConn]
         ELSE LET top == s1.stack[1]
                  rest == [s1 EXCEPT !.stack = Tail(@)]
              IN IF top.t = "tok" THEN [s |-> Fail(rest, "TypeError"), open |-> FALSE, con |-> NoConn]
                 ELSE IF top.t = "elem" THEN [s |-> rest, open |-> FALSE, con |-> Conn("S", <<top>>)]
                 ELSE [s |-> rest, open |-> FALSE, con |-> top]

\* the bare element list: elements until , : } is next
PBare(s, n) ==
    IF Failed(s) THEN s
    ELSE IF s.toks = <<>> THEN Fail(s, "InsufficientTokens")
    ELSE IF s.toks[1].k \in {",", ":", "}"} THEN s
    ELSE IF s.toks[1].k # "id" THEN Fail(s, "UnexpectedToken")
    ELSE PBare(PElement(s), n)

\* migrate: the optional !V=<number>! header
PMigrate(s) ==
    IF ~Accept(s, "!") THEN s
    ELSE LET s1 == PopTok(s) IN
         IF ExpectErr(s1, "id") # "" THEN Fail(s1, ExpectErr(s1, "id"))
         ELSE IF s1.toks[1].s \notin {<<"V">>, <<"v">>} THEN Fail(s1, "UnexpectedIdentifier")
         ELSE LET s2 == PopTok(s1) IN
              IF ExpectErr(s2, "=") # "" THEN Fail(s2, ExpectErr(s2, "="))
              ELSE LET s3 == PopTok(s2) IN
                   IF s3.toks = <<>> \/ ~IsNumTok(s3.toks[1]) THEN Fail(s3, "ExpectedNumericValue")
                   ELSE LET v == s3.toks[1].d
                            s4 == PopTok(s3)
                        IN IF Cmp(v, Dec(FALSE, 1, 0)) # 0 THEN Fail(s4, "InvalidNumericValue")     \* 0 < v <= 1 and int(v) >= 1
                           ELSE IF ExpectErr(s4, "!") # "" THEN Fail(s4, ExpectErr(s4, "!"))
                           ELSE PopTok(s4)

RECURSIVE PAll(_)
PAll(s) == IF Failed(s) \/ s.toks = <<>> THEN s ELSE PAll(PMain(s))

\* text after the second "!" (Python: string[string.find("!", 1) + 1:])
AfterHeader(cs) ==
    LET idx == {i \in 2..Len(cs) : cs[i] = "!"} IN
    IF idx = {} THEN cs ELSE SubSeq(cs, (CHOOSE i \in idx : \A j \in idx : i <= j) + 1, Len(cs))

\* Parser.process: [err, tree]
Process(input) ==
    LET cs == Strip(input) IN
    IF cs = <<>> \/ cs = <<"[", "]">> \/ (cs # <<>> /\ cs[1] = "!" /\ AfterHeader(cs) = <<"[", "]">>)
    THEN [err |-> "", tree |-> Conn("S", <<>>)]
    ELSE LET lx == Tokenize(cs) IN
         IF lx.err # "" THEN [err |-> lx.err, tree |-> NoConn]
         ELSE LET s0 == PMigrate(PS(lx.toks, <<>>, ""))
                  s == PAll(s0)
              IN IF Failed(s) THEN [err |-> s.err, tree |-> NoConn]
                 ELSE IF Len(s.stack) > 1
                 THEN (IF \E i \in 1..Len(s.stack) : s.stack[i].t = "tok" THEN [err |-> "TypeError", tree |-> NoConn]
                       ELSE [err |-> "", tree |-> Conn("S", [i \in 1..Len(s.stack) |-> s.stack[Len(s.stack) + 1 - i]])])
                 ELSE IF Len(s.stack) = 0 THEN [err |-> "ValueError", tree |-> NoConn]
                 ELSE IF s.stack[1].t = "conn" /\ s.stack[1].kind = "S" THEN [err |-> "", tree |-> s.stack[1]]
                 ELSE [err |-> "", tree |-> Conn("S", <<s.stack[1]>>)]

\* ---------------------------------------------------------------------------
\* the printer (Element.to_string / Container.to_string / Series / Parallel / Circuit.serialize)
\* and the alternative spellings the syntax allows.
\*
\* A spelling is a sequence of tokens (each a sequence of characters) joined with the white
\* space policy of the options record o:
\*   o.omit   TRUE: parameters / subcircuits equal to the class defaults are left out
\*   o.lim    "full" | "omit" (limits equal to the defaults are left out) | "pct" (percent form where exact)
\*   o.flow   TRUE: fixed marker written as f instead of F
\*   o.short  "short" | "zero"      o.open  "open" | "inf"
\*   o.bare   TRUE: a subcircuit that is a series of elements is written as a bare list
\*   o.ws     "canon" (exactly what the library prints) | "none" | "all" (a blank between any two tokens)
\*   o.header TRUE: !V=1! in front       o.outer  FALSE: the outer series brackets are left implicit
\*   o.dec    number of decimals
\* Canon is the library's own output.
\* ---------------------------------------------------------------------------
DigitChar(d) ==
    CASE d = 0 -> "0" [] d = 1 -> "1" [] d = 2 -> "2" [] d = 3 -> "3" [] d = 4 -> "4"
      [] d = 5 -> "5" [] d = 6 -> "6" [] d = 7 -> "7" [] d = 8 -> "8" [] d = 9 -> "9"
RECURSIVE NatDigits(_)
NatDigits(m) == IF m < 10 THEN <<DigitChar(m)>> ELSE Append(NatDigits(m \div 10), DigitChar(m % 10))
RECURSIVE Zeros(_)
Zeros(n) == IF n <= 0 THEN <<>> ELSE <<"0">> \o Zeros(n - 1)

\* "%.<dec>E" % value for values with at most dec+1 significant digits (no rounding needed)
PrintNum(d, dec) ==
    IF d.inf THEN (IF d.neg THEN <<"-", "I", "N", "F">> ELSE <<"I", "N", "F">>)
    ELSE LET ds == IF d.m = 0 THEN <<"0">> ELSE NatDigits(d.m)
             ex == IF d.m = 0 THEN 0 ELSE d.e + Len(ds) - 1
             ea == IF ex < 0 THEN 0 - ex ELSE ex
         IN (IF d.neg THEN <<"-">> ELSE <<>>) \o <<ds[1]>>
            \o (IF dec > 0 THEN <<".">> \o Tail(ds) \o Zeros(dec - (Len(ds) - 1)) ELSE <<>>)
            \o <<"E", IF ex < 0 THEN "-" ELSE "+">> \o (IF ea < 10 THEN <<"0", DigitChar(ea)>> ELSE NatDigits(ea))
PrintLimit(d, dec) == IF d.inf THEN <<"i", "n", "f">> ELSE PrintNum(d, dec)

Canon == [omit |-> FALSE, lim |-> "full", flow |-> FALSE, short |-> "short", open |-> "open", bare |-> FALSE,
          ws |-> "canon", header |-> FALSE, outer |-> TRUE, dec |-> 12]

\* percent spelling of limit l relative to value v, or <<>> if there is no exact one
PctOf(l, v) ==
    IF l.inf \/ v.inf \/ Sign(v) = 0 THEN <<>>
    ELSE IF Sign(l) = 0 THEN <<"0">>
    ELSE IF Cmp(l, v) = 0 THEN <<"1", "0", "0">>
    ELSE IF l.neg = v.neg /\ l.m = v.m /\ l.e = v.e + 1 THEN <<"1", "0", "0", "0">>
    ELSE IF l.neg = v.neg /\ l.m = v.m /\ l.e = v.e - 1 THEN <<"1", "0">>
    ELSE <<>>

SameP(p, q) == p.v = q.v /\ p.lo = q.lo /\ p.hi = q.hi /\ p.fx = q.fx

RECURSIVE SpellNode(_, _), SpellItems(_, _), SpellElem(_, _)

AllElems(items) == \A i \in 1..Len(items) : items[i].t = "elem"

\* tokens of one numeric parameter definition
SpellParam(p, def, o) ==
    LET num == PrintNum(p.v, o.dec) \o (IF p.fx THEN (IF o.flow THEN <<"f">> ELSE <<"F">>) ELSE <<>>)
        limtok(l) == IF o.lim = "pct" /\ PctOf(l, p.v) # <<>> THEN <<PctOf(l, p.v), <<"%">>>> ELSE <<PrintLimit(l, o.dec)>>
        omitLo == o.lim = "omit" /\ p.lo = def.lo
        omitHi == o.lim = "omit" /\ p.hi = def.hi
    IN <<p.key, <<"=">>, num>>
       \o (IF omitLo /\ omitHi THEN <<>>
           ELSE IF omitHi THEN <<<<"/">>>> \o limtok(p.lo)
           ELSE IF omitLo THEN <<<<"/">>, <<"/">>>> \o limtok(p.hi)
           ELSE <<<<"/">>>> \o limtok(p.lo) \o <<<<"/">>>> \o limtok(p.hi))

SpellSub(sd, o) ==
    IF sd.open THEN <<IF o.open = "open" THEN <<"o", "p", "e", "n">> ELSE <<"i", "n", "f">>>>
    ELSE IF sd.con.items = <<>> THEN <<IF o.short = "short" THEN <<"s", "h", "o", "r", "t">> ELSE <<"z", "e", "r", "o">>>>
    ELSE IF o.bare /\ sd.con.kind = "S" /\ AllElems(sd.con.items) THEN SpellItems(sd.con.items, o)
    ELSE SpellNode(sd.con, o)

\* comma-separated definitions: `sepSub` after a subcircuit, "," after a parameter
RECURSIVE JoinDefs(_, _)
JoinDefs(defs, o) ==       \* defs: Seq of [toks, sub]
    IF defs = <<>> THEN <<>>
    ELSE IF Len(defs) = 1 THEN defs[1].toks
    ELSE defs[1].toks \o <<IF o.ws = "canon" /\ defs[1].sub THEN <<",", " ">> ELSE <<",">>>> \o JoinDefs(Tail(defs), o)

SpellElem(n, o) ==
    LET defs == ParamDefs(n.sym)
        sdefs == SubDefs(n.sym)
        subDefs == [i \in 1..Len(n.subs) |-> [toks |-> <<n.subs[i].key, <<"=">>>> \o SpellSub(n.subs[i], o), sub |-> TRUE,
                                               keep |-> ~(o.omit /\ n.subs[i] = sdefs[i])]]
        parDefs == [i \in 1..Len(n.ps) |-> [toks |-> SpellParam(n.ps[i], defs[i], o), sub |-> FALSE,
                                             keep |-> ~(o.omit /\ SameP(n.ps[i], defs[i]))]]
        kept == SelectSeq(subDefs \o parDefs, LAMBDA d : d.keep)
        lab == IF n.label = <<>> THEN <<>> ELSE <<<<":">>, n.label>>
    IN IF o.dec < 0 \/ (o.omit /\ kept = <<>> /\ lab = <<>>) THEN <<n.sym>>
       ELSE <<n.sym, <<"{">>>> \o JoinDefs(kept, o) \o lab \o <<<<"}">>>>

SpellItems(items, o) == IF items = <<>> THEN <<>> ELSE SpellNode(items[1], o) \o SpellItems(Tail(items), o)

SpellNode(n, o) ==
    IF n.t = "elem" THEN SpellElem(n, o)
    ELSE IF n.kind = "S" THEN <<<<"[">>>> \o SpellItems(n.items, o) \o <<<<"]">>>>
    ELSE <<<<"(">>>> \o SpellItems(n.items, o) \o <<<<")">>>>

RECURSIVE JoinToks(_, _)
JoinToks(toks, sep) ==
    IF toks = <<>> THEN <<>> ELSE IF Len(toks) = 1 THEN toks[1] ELSE toks[1] \o sep \o JoinToks(Tail(toks), sep)

\* the text of circuit `root` (a series) under options o
Spell(root, o) ==
    LET body == IF o.outer THEN SpellNode(root, o) ELSE SpellItems(root.items, o)
        head == IF o.header THEN <<<<"!">>, <<"V">>, <<"=">>, <<"1">>, <<"!">>>> ELSE <<>>
    IN JoinToks(head \o body, IF o.ws = "all" THEN <<" ">> ELSE <<>>)

PrintCdc(root, dec) == Spell(root, [Canon EXCEPT !.dec = dec])
Serialize(root) == Spell(root, [Canon EXCEPT !.header = TRUE])

\* ---------------------------------------------------------------------------
\* the circuit a description denotes: directly nested connections of the same kind are merged,
\* a series of one item is that item (except at the root; at the root of a subcircuit a lone
\* element stays wrapped)
\* ---------------------------------------------------------------------------
RECURSIVE Norm(_), NormItems(_, _)
NormItems(items, kind) ==
    IF items = <<>> THEN <<>>
    ELSE LET x == Norm(items[1]) IN
         (IF x.t = "conn" /\ x.kind = kind THEN x.items ELSE <<x>>) \o NormItems(Tail(items), kind)

NormSub(sd) ==
    IF sd.open \/ sd.con.items = <<>> THEN sd
    ELSE LET its == NormItems(sd.con.items, sd.con.kind) IN
         IF sd.con.kind = "S" /\ Len(its) = 1 /\ its[1].t = "conn" THEN [sd EXCEPT !.con = its[1]]
         ELSE [sd EXCEPT !.con = Conn(sd.con.kind, its)]

Norm(n) ==
    IF n.t = "elem" THEN [n EXCEPT !.subs = [i \in 1..Len(n.subs) |-> NormSub(n.subs[i])]]
    ELSE LET its == NormItems(n.items, n.kind) IN
         IF n.kind = "S" /\ Len(its) = 1 THEN its[1] ELSE Conn(n.kind, its)

NormRoot(root) == Conn("S", NormItems(root.items, "S"))

\* ---------------------------------------------------------------------------
\* outcome classes (C04)
\* ---------------------------------------------------------------------------
ParsingErrors == {"InsufficientTokens", "UnexpectedToken", "UnexpectedIdentifier", "ExpectedParameterIdentifier",
                  "ExpectedNumericValue", "InvalidNumericValue", "ConnectionWithoutElements",
                  "InsufficientElementsInParallelConnection", "InvalidElementSymbol", "DuplicateParameterDefinition",
                  "InvalidParameterDefinition", "TooManyParameterDefinitions", "InvalidParameterLowerLimit",
                  "InvalidParameterUpperLimit", "UnexpectedCharacter"}
AllowedOutcomes == {""} \cup ParsingErrors \cup {"ValueError"}
=============================================================================
