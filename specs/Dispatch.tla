------------------------------ MODULE Dispatch ------------------------------
(***************************************************************************)
(* parse_data (src/pyimpspec/data/__init__.py l.114-194): how a path and   *)
(* the optional file_format argument select a parser, the two fallbacks,   *)
(* and the brute-force loop over a *set* of parsers - whose iteration      *)
(* order differs from process to process (property C06, mechanism "parse_  *)
(* data dispatch by extension / brute force").                             *)
(*                                                                         *)
(*   Resolve      file_format lower-cased and dotted, else the lower-cased *)
(*                extension; spreadsheets first; exact key, then           *)
(*                case-insensitive key (".p00" finds ".P00")    l.158-171  *)
(*   Primary      the selected parser                            l.173-182 *)
(*   CsvRetry     ".csv" only: again with sep=None, decimal=","  l.175-177 *)
(*   BruteTry(p)  _brute_force: the parsers in set order, then the         *)
(*                decimal-comma csv variant; every exception is            *)
(*                swallowed; the first result wins               l.87-111  *)
(*                                                                         *)
(* What each parser does with each kind of content is measured from the    *)
(* code by the harness (module DispatchMeasured, generated): Accepts (a    *)
(* result is returned), Right (it is the written spectrum), Unsupp (it     *)
(* raises UnsupportedFileFormat); anything else is another exception.      *)
(* TLC then explores every brute-force order the code could take.          *)
(***************************************************************************)
EXTENDS Integers, Sequences, FiniteSets, TLC, DispatchMeasured

VARIABLES cfg, pc, tried, calls, outcome
vars == <<cfg, pc, tried, calls, outcome>>

\* parser ids; "csvc" is parse_csv(sep=None, decimal=",")
SetParsers == {"csv", "mpt", "i2b", "p00", "dfr", "dta", "z", "ids", "pssession", "spreadsheet"}   \* set(get_parsers().values())
Contents == {"csv-point", "csv-comma", "tab-txt", "mpt", "i2b", "p00", "dfr", "dta", "z", "garbage"}
Own(c) == CASE c \in {"csv-point", "tab-txt", "csv-comma"} -> "csv" [] c = "garbage" -> "none" [] OTHER -> c

\* strings the driver uses for the extension of the path and for file_format, with their lower-cased dotted form
Exts == {"", ".csv", ".CSV", ".txt", ".mpt", ".MPT", ".P00", ".p00", ".dfr", ".dta", ".DTA", ".i2b", ".z", ".Z", ".xyz", ".xlsx"}
FmtArgs == {"", "csv", ".csv", "CSV", "txt", "mpt", ".MPT", "P00", "p00", "dta", "z", "xyz"}
Canon(s) ==
    CASE s \in {".csv", ".CSV", "csv", "CSV"} -> ".csv" [] s \in {".txt", "txt"} -> ".txt"
      [] s \in {".mpt", ".MPT", "mpt"} -> ".mpt" [] s \in {".P00", ".p00", "P00", "p00"} -> ".p00"
      [] s = ".dfr" -> ".dfr" [] s \in {".dta", ".DTA", "dta"} -> ".dta" [] s = ".i2b" -> ".i2b"
      [] s \in {".z", ".Z", "z"} -> ".z" [] s \in {".xyz", "xyz"} -> ".xyz" [] s = ".xlsx" -> ".xlsx" [] OTHER -> ""
\* get_parsers() with its keys lower-cased (the second lookup); ".P00" is the only key that is not lower case
ParserOf(fmt) ==
    CASE fmt \in {".csv", ".txt"} -> "csv" [] fmt = ".mpt" -> "mpt" [] fmt = ".p00" -> "p00" [] fmt = ".dfr" -> "dfr"
      [] fmt = ".dta" -> "dta" [] fmt = ".i2b" -> "i2b" [] fmt = ".z" -> "z" [] fmt = ".xlsx" -> "spreadsheet" [] OTHER -> "none"

Fmt(c) == IF c.fmt # "" THEN Canon(c.fmt) ELSE Canon(c.ext)

Configs == [content : Contents, ext : Exts, fmt : FmtArgs]

Init ==
    /\ cfg \in Configs
    /\ pc = "resolve"
    /\ tried = {}
    /\ calls = <<>>
    /\ outcome = ""

Acc(p, c) == <<p, c>> \in Accepts
Uns(p, c) == <<p, c>> \in Unsupp

Resolve ==
    /\ pc = "resolve"
    /\ LET f == Fmt(cfg) IN
       IF f = "" THEN pc' = "brute" /\ outcome' = ""
       ELSE IF ParserOf(f) = "none" THEN pc' = "done" /\ outcome' = "UnsupportedFileFormat"
       ELSE pc' = "primary" /\ outcome' = ""
    /\ UNCHANGED <<cfg, tried, calls>>

Primary ==
    /\ pc = "primary"
    /\ LET p == ParserOf(Fmt(cfg)) IN
       /\ calls' = Append(calls, p)
       /\ IF Acc(p, cfg.content) THEN pc' = "done" /\ outcome' = p
          ELSE IF p = "spreadsheet" THEN pc' = "done" /\ outcome' = "error"                 \* spreadsheets have no fallback
          ELSE IF Uns(p, cfg.content) THEN (pc' = IF Fmt(cfg) = ".csv" THEN "csvretry" ELSE "brute") /\ outcome' = ""
          ELSE pc' = "done" /\ outcome' = "error"                                            \* any other exception propagates
    /\ UNCHANGED <<cfg, tried>>

CsvRetry ==
    /\ pc = "csvretry"
    /\ calls' = Append(calls, "csvc")
    /\ pc' = "done"
    /\ outcome' = IF Acc("csvc", cfg.content) THEN "csvc" ELSE IF Uns("csvc", cfg.content) THEN "UnsupportedFileFormat" ELSE "error"
    /\ UNCHANGED <<cfg, tried>>

\* the set is iterated in an order TLC chooses; the decimal-comma variant is appended to the list, i.e. tried last
BruteTry(p) ==
    /\ pc = "brute"
    /\ p \in SetParsers \ tried
    /\ calls' = Append(calls, p)
    /\ tried' = tried \cup {p}
    /\ IF Acc(p, cfg.content) THEN pc' = "done" /\ outcome' = p ELSE UNCHANGED <<pc, outcome>>
    /\ UNCHANGED cfg
BruteLast ==
    /\ pc = "brute"
    /\ tried = SetParsers
    /\ calls' = Append(calls, "csvc")
    /\ pc' = "done"
    /\ outcome' = IF Acc("csvc", cfg.content) THEN "csvc" ELSE "UnsupportedFileFormat"
    /\ UNCHANGED <<cfg, tried>>

Next == Resolve \/ Primary \/ CsvRetry \/ (\E p \in SetParsers : BruteTry(p)) \/ BruteLast
Spec == Init /\ [][Next]_vars

\* the brute-force order is not observable in the set of tried parsers: hide the sequence when only outcomes matter
OutcomeView == <<cfg, pc, tried, outcome>>

\* ---- properties -------------------------------------------------------------
Parsed == pc = "done" /\ outcome \in SetParsers \cup {"csvc"}
\* whichever parser wins - in whichever order the set was iterated - the data are the written spectrum
WinnerIsRight == Parsed => <<outcome, cfg.content>> \in Right
\* a file in a documented layout is parsed when the format is left to the library or named correctly
Named(c) == LET f == Fmt(c) IN f # "" /\ ParserOf(f) = Own(c.content)
Recognised == (pc = "done" /\ cfg.content # "garbage" /\ (Fmt(cfg) = "" \/ Named(cfg))) => Parsed
GarbageRefused == (pc = "done" /\ cfg.content = "garbage") => ~Parsed
=============================================================================
