SPECIFICATION Spec
CONSTRAINT Sensible
