SPECIFICATION Spec
CONSTANTS
    P = {"x", "y"}
    Shape = "FF"
    FixedByDefault = FALSE
    ValArgs = {0, 2, 4, 6, 8, 100, 200, 201}
    LoArgs = {0, 1, 2, 3, 4, 5, 6, 7, 8, 100, 200}
    HiArgs = {0, 1, 2, 3, 4, 5, 6, 7, 8, 100, 201}
    LabelArgs = {"empty", "a", "padded", "digits", "nonascii", "nonstr"}
    MaxHist = 3
    MaxPairs = 1
    Enabled = {"SetValues", "SetLower", "SetUpper", "SetFixed", "SetValuesBad", "SetLowerBad", "SetUpperBad", "SetFixedBad", "SetLabel", "ResetParameter", "ResetParameters", "Copy", "PrintParse", "Swap"}
    Record = FALSE
INVARIANT TypeOK
INVARIANT LoLtHi
INVARIANT LimitsAreNumbers
INVARIANT CopyNeverRefused
INVARIANT ResetNeverRefused
INVARIANT ClampAndRefusal
