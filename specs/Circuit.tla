------------------------------ MODULE Circuit ------------------------------
(***************************************************************************)
(* C16 / C20: element identifiers, names and the sets derived from them.   *)
(*                                                                         *)
(* Circuits are CDC.tla nodes grown by a builder (stack of open            *)
(* connections, root series first).  For every complete circuit the spec   *)
(* computes                                                                *)
(*   Order     the traversal Connection._get_elements_recursive            *)
(*             (base.py l.1246-1287): all leaves of the connection         *)
(*             structure depth-first, then the sub-circuits of container   *)
(*             elements, queued at the END in order of discovery           *)
(*   running   Connection.generate_element_identifiers(True)  = position   *)
(*   pertype   Connection.generate_element_identifiers(False) = count per  *)
(*             symbol in that order                                        *)
(*   names     Connection.get_element_name: SYM_label or SYM_count         *)
(*   symbols   the free symbols of to_sympy(): key_label or key_running    *)
(*   fitids    generate_fit_identifiers: key_running                       *)
(* Leaves are identified by their position in Order (the harness maps      *)
(* them to object identities).                                             *)
(***************************************************************************)
EXTENDS CDC

CONSTANTS MaxLeaves, MaxDepth, LeafKinds,
          Degenerate    \* TRUE: also the shapes only the API can build: a parallel connection with one branch, empty nested connections

VARIABLES stack, exp
vars == <<stack, exp>>

\* ---------------------------------------------------------------------------
\* leaves offered to the builder
\* ---------------------------------------------------------------------------
Plain(sym) == Elem(sym, ParamDefs(sym), SubDefs(sym), <<>>)
Labelled(sym, l) == [Plain(sym) EXCEPT !.label = l]
TlmWith(x1, za) == [Plain(SymTlm) EXCEPT !.subs[1] = SubDef(<<"X", "_", "1">>, FALSE, x1), !.subs[3] = SubDef(<<"Z", "_", "A">>, FALSE, za)]

LeafOf(k) ==
    CASE k = "R" -> Plain(SymR) [] k = "C" -> Plain(SymC) [] k = "Q" -> Plain(SymQ)
      [] k = "Ra" -> Labelled(SymR, <<"a">>) [] k = "Rb" -> Labelled(SymR, <<"b">>) [] k = "Ca" -> Labelled(SymC, <<"a">>)
      [] k = "Tlm" -> Plain(SymTlm)                                        \* X_1 = [R], Zeta = [Q]
      [] k = "TlmRC" -> TlmWith(Conn("S", <<Plain(SymR), Plain(SymC)>>), Conn("P", <<Plain(SymC), Labelled(SymR, <<"a">>)>>))
      [] k = "TlmTlm" -> TlmWith(Conn("S", <<Plain(SymTlm), Plain(SymR)>>), Conn("S", <<Plain(SymC)>>))
      [] k = "Tlmt" -> Labelled(SymTlm, <<"t">>)
      [] k = "Ru" -> Labelled(SymR, <<"c", "_", "1">>)             \* a label containing an underscore
      [] k = "Qf" -> [Plain(SymQ) EXCEPT !.ps[1].fx = TRUE]         \* first parameter fixed: the fit table lists n before Y
      [] k = "Rdash" -> Labelled(SymR, <<"a", "-", "b">>)          \* labels set_label accepts that are not identifiers
      [] k = "Rsp" -> Labelled(SymR, <<"m", "y", " ", "l">>)

\* ---------------------------------------------------------------------------
\* the traversal
\* ---------------------------------------------------------------------------
\* An element is identified by its path: indices into items, 100 + k for the k-th sub-circuit.
\* Queue entries: [t |-> "elem" | "conn", n |-> node, p |-> path]
Q(n, p) == [t |-> n.t, n |-> n, p |-> p]

RECURSIVE AllItemsP(_, _), AllItemsSeqP(_, _, _)
\* Connection._get_all_items_recursive: leaves of the connection structure, depth first
AllItemsP(n, p) == IF n.t = "elem" THEN <<Q(n, p)>> ELSE AllItemsSeqP(n.items, p, 1)
AllItemsSeqP(items, p, i) ==
    IF i > Len(items) THEN <<>> ELSE AllItemsP(items[i], Append(p, i)) \o AllItemsSeqP(items, p, i + 1)

\* the sub-circuits of a container that are not open, as queue entries (short = an empty series, still queued)
SubConnsP(q) ==
    LET live == SelectSeq([k \in 1..Len(q.n.subs) |-> [k |-> k, sd |-> q.n.subs[k]]], LAMBDA x : ~x.sd.open)
    IN [i \in 1..Len(live) |-> Q(live[i].sd.con, Append(q.p, 100 + live[i].k))]

InAcc(q, acc) == \E i \in 1..Len(acc) : acc[i].p = q.p

\* the queue loop of _get_elements_recursive
RECURSIVE Drain(_, _), ElementsRecursiveP(_, _)
Drain(queue, acc) ==
    IF queue = <<>> THEN acc
    ELSE LET x == Head(queue) IN
         IF x.t = "conn" THEN Drain(Tail(queue) \o ElementsRecursiveP(x.n, x.p), acc)
         ELSE Drain(Tail(queue) \o SubConnsP(x), IF InAcc(x, acc) THEN acc ELSE Append(acc, x))
ElementsRecursiveP(con, p) == Drain(AllItemsP(con, p), <<>>)
ElementsRecursive(con) == LET r == ElementsRecursiveP(con, <<>>) IN [i \in 1..Len(r) |-> r[i].n]
AllItems(con) == AllItemsP(con, <<>>)

\* ---------------------------------------------------------------------------
\* identifiers and names over Order = ElementsRecursive(root); leaf = index into Order
\* ---------------------------------------------------------------------------
CountBefore(order, i) == Cardinality({j \in 1..i : order[j].sym = order[i].sym})

Expect(root) ==
    LET op == ElementsRecursiveP(root, <<>>)
        order == [i \in 1..Len(op) |-> op[i].n]
    IN
    [n |-> Len(order),
     paths |-> [i \in 1..Len(op) |-> op[i].p],
     nparams |-> [i \in 1..Len(order) |-> Len(order[i].ps)],
     syms |-> [i \in 1..Len(order) |-> order[i].sym],
     labels |-> [i \in 1..Len(order) |-> order[i].label],
     running |-> [i \in 1..Len(order) |-> i - 1],
     pertype |-> [i \in 1..Len(order) |-> CountBefore(order, i)],
     top |-> Len(AllItems(root))]          \* how many of them belong to the connection structure itself

\* ---------------------------------------------------------------------------
\* builder
\* ---------------------------------------------------------------------------
RECURSIVE NLeaves(_)
NLeaves(n) == IF n.t = "elem" THEN 1
              ELSE LET RECURSIVE Sum(_)
                       Sum(xs) == IF xs = <<>> THEN 0 ELSE NLeaves(xs[1]) + Sum(Tail(xs))
                   IN Sum(n.items)
RECURSIVE StackLeaves(_)
StackLeaves(st) == IF st = <<>> THEN 0 ELSE NLeaves(st[1]) + StackLeaves(Tail(st))
Top1(st) == st[Len(st)]
WithTop(st, c) == [st EXCEPT ![Len(st)] = c]
Complete == Len(stack) = 1 /\ stack[1].items # <<>>
NoExp == [n |-> 0, paths |-> <<>>, nparams |-> <<>>, syms |-> <<>>, labels |-> <<>>, running |-> <<>>, pertype |-> <<>>, top |-> 0]
Eval == exp' = IF Len(stack') = 1 /\ stack'[1].items # <<>> THEN Expect(stack'[1]) ELSE NoExp

AddLeaf(k) ==
    /\ StackLeaves(stack) < MaxLeaves
    /\ stack' = WithTop(stack, [Top1(stack) EXCEPT !.items = Append(@, LeafOf(k))])
    /\ Eval
RECURSIVE NConns(_)
NConns(n) == IF n.t = "elem" THEN 0
             ELSE 1 + (LET RECURSIVE Sum(_)
                           Sum(xs) == IF xs = <<>> THEN 0 ELSE NConns(xs[1]) + Sum(Tail(xs))
                       IN Sum(n.items))
RECURSIVE StackConns(_)
StackConns(st) == IF st = <<>> THEN 0 ELSE NConns(st[1]) + StackConns(Tail(st))

Open(kind) ==
    /\ Len(stack) <= MaxDepth /\ StackLeaves(stack) < MaxLeaves
    /\ StackConns(stack) <= MaxLeaves + 1         \* (matters only with Degenerate: empty connections consume no leaves)
    /\ stack' = Append(stack, Conn(kind, <<>>))
    /\ Eval
Close ==
    /\ Len(stack) > 1
    /\ (~Degenerate => (Top1(stack).items # <<>> /\ (Top1(stack).kind = "P" => Len(Top1(stack).items) >= 2)))
    /\ LET c == Top1(stack)
           rest == SubSeq(stack, 1, Len(stack) - 1)
       IN stack' = WithTop(rest, [Top1(rest) EXCEPT !.items = Append(@, c)])
    /\ Eval

Init == stack = <<Conn("S", <<>>)>> /\ exp = NoExp
Next == (\E k \in LeafKinds : AddLeaf(k)) \/ (\E kind \in {"S", "P"} : Open(kind)) \/ Close
Spec == Init /\ [][Next]_vars

\* ---------------------------------------------------------------------------
\* Properties (C16) on the model
\* ---------------------------------------------------------------------------
Idx == 1..exp.n
\* the running index is a bijection onto 0..N-1
RunningBijection == Complete => {exp.running[i] : i \in Idx} = 0..(exp.n - 1)
\* per symbol, the counts are a bijection onto 1..k
PerTypeBijection ==
    Complete => \A s \in {exp.syms[i] : i \in Idx} :
        LET S == {i \in Idx : exp.syms[i] = s} IN {exp.pertype[i] : i \in S} = 1..Cardinality(S)
\* names are unique unless the user assigned the same label to two elements of one type
Name(i) == IF exp.labels[i] # <<>> THEN [sym |-> exp.syms[i], label |-> exp.labels[i], count |-> 0]
           ELSE [sym |-> exp.syms[i], label |-> <<>>, count |-> exp.pertype[i]]
NamesUnique ==
    Complete => \A i, j \in Idx : (i # j /\ Name(i) = Name(j)) => (exp.labels[i] # <<>> /\ exp.labels[i] = exp.labels[j])
\* every element of every sub-circuit is reached exactly once
RECURSIVE CountElems(_)
CountElems(n) ==
    IF n.t = "elem" THEN 1 + (LET live == SelectSeq(n.subs, LAMBDA sd : ~sd.open)
                                  cs == [i \in 1..Len(live) |-> live[i].con]
                                  RECURSIVE Sum(_)
                                  Sum(xs) == IF xs = <<>> THEN 0 ELSE CountElems(xs[1]) + Sum(Tail(xs))
                              IN Sum(cs))
    ELSE LET RECURSIVE Sum2(_)
             Sum2(xs) == IF xs = <<>> THEN 0 ELSE CountElems(xs[1]) + Sum2(Tail(xs))
         IN Sum2(n.items)
ReachesEveryElement == Complete => exp.n = CountElems(stack[1])
=============================================================================
