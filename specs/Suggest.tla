------------------------------ MODULE Suggest ------------------------------
(***************************************************************************)
(* The selection machine behind the automatic Kramers-Kronig test:         *)
(* pyimpspec.analysis.kramers_kronig.algorithms.suggest_num_RC_limits      *)
(* (__init__.py l.56-198) and suggest_num_RC (l.586-748) with              *)
(* _choose_methods, _suggest_using_mean/_ranking/_sum/_default.            *)
(*                                                                         *)
(* It is a self-contained case analysis: given a list of test results (one *)
(* per number of RC elements), optional manual limits and the score tables *)
(* of up to six scoring methods, it clamps and repairs a (lower, upper)    *)
(* window in five consecutive blocks and then whittles the candidates      *)
(* down in up to four passes.  The numeric scoring methods are *inputs*    *)
(* here (tables chosen nondeterministically by Init, on a grid of halves   *)
(* that binary floating point adds exactly); the harness replays every     *)
(* terminal state through the real functions with the scoring methods and  *)
(* the transition estimator substituted by table look-ups, and validates   *)
(* recorded real runs against the same operators (TraceSuggest.tla).       *)
(*                                                                         *)
(* One action per block of the code, in the code's order.                  *)
(***************************************************************************)
EXTENDS Integers, Sequences, FiniteSets, TLC

CONSTANTS Part,     \* "limits" | "combine"
          Shape,    \* "A" tests 2..6 | "B" tests 1..5 | "C" tests {2,3,5,6,7} (user-given list with a gap)
          Wide      \* TRUE: the wider input alphabets of the thorough tier

VARIABLES pc, inp, lo, hi, mx, ms, top, pass, out
vars == <<pc, inp, lo, hi, mx, ms, top, pass, out>>

NS == IF Shape = "A" THEN 2..6 ELSE IF Shape = "B" THEN 1..5 ELSE {2, 3, 5, 6, 7}
SetMin(S) == CHOOSE x \in S : \A y \in S : x <= y
SetMax(S) == CHOOSE x \in S : \A y \in S : x >= y
First == SetMin(NS)
Last  == SetMax(NS)
Contiguous == \A n \in NS : n = Last \/ (n + 1) \in NS
Max2(a, b) == IF a >= b THEN a ELSE b
Min2(a, b) == IF a <= b THEN a ELSE b
None == [kind |-> "none", n |-> 0, lo |-> 0, hi |-> 0]

\* chi[n] is a level: pseudo chi-squared = 10^(-6 + 2*level), so log10 = -4, -2, 0 and "log < -2" <=> level = 1.
\* ArgMinChi(S): min(tests, key=pseudo_chisqr) - the first minimal one in ascending num_RC order.
ArgMinChi(chi, S) == SetMin({n \in S : \A m \in S : chi[n] <= chi[m]})

(***************************************************************************)
(* Part "limits": suggest_num_RC_limits                                    *)
(***************************************************************************)
LoArgs == IF Wide THEN {0, 1, 3, 4, 6, 9} ELSE {0, 3, 6}
UpArgs == IF Wide THEN {0, 2, 4, 5, 9} ELSE {0, 4, 9}
Deltas == IF Wide THEN {0, 1, 2, 3} ELSE {0, 1, 3}
\* which candidates reach the mean-distance threshold (method 5, absolute values): thr[n]
ThrSets == IF Wide THEN SUBSET NS ELSE {{}, {Last}, {First}, NS, NS \ {Last}, {SetMin(NS \ {First})}}

LimitInputs ==
    IF Part # "limits" THEN {} ELSE
    [lower : LoArgs, upper : UpArgs, delta : Deltas,
     tl : NS, tm : NS,                    \* what _approximate_transition_and_end_point returns (lower limit, max_x)
     thr : ThrSets,
     chi : [NS -> 1..2]]

UpperArg(u) == IF u < 0 THEN Last + u ELSE u            \* suggest_num_RC l.695: a negative upper limit counts from the last test
UpperEff == IF Part = "combine" THEN UpperArg(inp.upper) ELSE inp.upper
ManLo == inp.lower > 0
ManHi == UpperEff > 0
Single == First = 2 /\ Contiguous /\ \A n \in NS : inp.chi[n] = 1   \* possibly_single_resistor_or_capacitor (5 tests = y[:5])
DeltaOr1 == IF inp.delta = 0 THEN 1 ELSE inp.delta

\* l.98-110: both limits given by the caller
LBothManual ==
    /\ pc = "limits" /\ ManLo /\ ManHi
    /\ lo' = Max2(inp.lower, First)
    /\ hi' = IF inp.delta > 0 THEN Min2(Min2(inp.lower + inp.delta, UpperEff), Last) ELSE Min2(UpperEff, Last)
    /\ pc' = "limits_done"
    /\ UNCHANGED <<inp, mx, ms, top, pass, out>>

\* l.131-140: the lower limit
LEstimateLower ==
    /\ pc = "limits" /\ ~(ManLo /\ ManHi)
    /\ IF ManLo THEN lo' = inp.lower /\ mx' = Last
       ELSE LET l0 == IF Single THEN First ELSE inp.tl
                l1 == Max2(First, l0)
            IN /\ lo' = IF ManHi THEN Max2(First, l1 - 1) ELSE l1
               /\ mx' = IF Single THEN Last ELSE inp.tm
    /\ hi' = UpperEff
    /\ pc' = "upper"
    /\ UNCHANGED <<inp, ms, top, pass, out>>

\* l.142-172: the upper limit
LEstimateUpper ==
    /\ pc = "upper"
    /\ IF ManHi THEN UNCHANGED <<lo, hi>>
       ELSE IF Single THEN /\ hi' = IF mx <= lo THEN Min2(mx, lo + 1) ELSE mx   \* min(max_x, len(f)), len(f) > max_x here
                           /\ lo' = lo
       ELSE IF lo >= mx THEN /\ lo' = mx - 1
                             /\ hi' = mx               \* (hi <= lo is impossible afterwards)
       ELSE LET keys == {n \in NS : n >= lo /\ n <= mx /\ n \in inp.thr}
                h0 == IF keys # {} THEN Min2(mx, Max2(lo + DeltaOr1, SetMax(keys)))
                      ELSE Min2(mx, lo + DeltaOr1)
            IN /\ hi' = IF h0 <= lo THEN Min2(mx, lo + 1) ELSE h0
               /\ lo' = lo
    /\ pc' = "fix"
    /\ UNCHANGED <<inp, mx, ms, top, pass, out>>

\* l.174-181: repair or refuse an empty window
LFix ==
    /\ pc = "fix"
    /\ LET l1 == IF hi <= lo /\ hi >= mx THEN Max2(First, hi - DeltaOr1) ELSE lo
           h1 == IF hi <= lo /\ ~(hi >= mx) THEN Min2(mx, lo + DeltaOr1) ELSE hi
       IN IF h1 <= l1
          THEN /\ out' = [kind |-> "ValueError", n |-> 0, lo |-> l1, hi |-> h1]
               /\ pc' = "done" /\ UNCHANGED <<lo, hi>>
          ELSE /\ lo' = l1 /\ hi' = h1 /\ pc' = "below" /\ out' = out
    /\ UNCHANGED <<inp, mx, ms, top, pass>>

\* l.183-197: a better fit below the estimated lower limit
LBestBelow ==
    /\ pc = "below"
    /\ IF ~ManLo /\ lo > First
       THEN IF lo \notin NS
            THEN /\ out' = [kind |-> "IndexError", n |-> 0, lo |-> lo, hi |-> hi]   \* [t for t in tests if t.num_RC == lower_limit][0]
                 /\ pc' = "done" /\ UNCHANGED lo
            ELSE LET b == ArgMinChi(inp.chi, {n \in NS : n < lo})
                 IN /\ lo' = IF inp.chi[b] < inp.chi[lo] THEN b ELSE lo
                    /\ pc' = "delta" /\ out' = out
       ELSE /\ pc' = "delta" /\ UNCHANGED <<lo, out>>
    /\ UNCHANGED <<inp, hi, mx, ms, top, pass>>

\* l.195-198
LDelta ==
    /\ pc = "delta"
    /\ hi' = IF inp.delta > 0 THEN Min2(lo + inp.delta, mx) ELSE hi
    /\ pc' = "limits_done"
    /\ UNCHANGED <<inp, lo, mx, ms, top, pass, out>>

LReturn ==
    /\ pc = "limits_done" /\ Part = "limits"
    /\ out' = [kind |-> "ok", n |-> 0, lo |-> lo, hi |-> hi]
    /\ pc' = "done"
    /\ UNCHANGED <<inp, lo, hi, mx, ms, top, pass>>

(***************************************************************************)
(* Part "combine": suggest_num_RC with both limits given                   *)
(***************************************************************************)
Modes == {"single", "mean", "ranking", "sum", "nocomb", "flagonly", "unknown", "unknownsum", "default"}
CLo == IF Wide THEN {1, 2, 3, 4, 5} ELSE {2, 3}
CUp == IF Wide THEN {-2, -1, 3, 4, 5, 9} ELSE {-2, 4, 5}
WinOf(l, u) == {n \in NS : n >= Max2(l, First) /\ n <= Min2(UpperArg(u), Last)}
Tables(W) == {t \in [W -> 0..2] : \E n \in W : t[n] = 2}     \* relative scores in halves, the best one is 1.0
TwoTables == {"mean", "ranking", "sum", "nocomb"}

CombineInputs ==
    IF Part # "combine" THEN {} ELSE       \* (TLC evaluates constant definitions eagerly)
    UNION {UNION { LET W == WinOf(l, u) IN
        IF UpperArg(u) <= 0 \/ Cardinality(W) > 3 THEN {}
        ELSE IF Cardinality(W) = 0 \/ Min2(UpperArg(u), Last) <= Max2(l, First)
        THEN {[lower |-> l, upper |-> u, delta |-> 0, mode |-> "single", t1 |-> <<>>, t2 |-> <<>>,
               nsc |-> <<>>, nrm |-> <<>>, mdv |-> <<>>, chi |-> [n \in NS |-> 2]]}
        ELSE
          {[lower |-> l, upper |-> u, delta |-> 0, mode |-> m, t1 |-> a, t2 |-> b,
            nsc |-> <<>>, nrm |-> <<>>, mdv |-> <<>>, chi |-> [n \in NS |-> IF n \in W THEN c[n] ELSE 2]] :
              m \in TwoTables, a \in Tables(W), b \in Tables(W), c \in [W -> 1..3]}
          \cup
          {[lower |-> l, upper |-> u, delta |-> 0, mode |-> m, t1 |-> a, t2 |-> <<>>,
            nsc |-> <<>>, nrm |-> <<>>, mdv |-> <<>>, chi |-> [n \in NS |-> IF n \in W THEN c[n] ELSE 2]] :
              m \in {"single", "unknown", "unknownsum"}, a \in Tables(W), c \in [W -> 1..3]}
          \cup
          {[lower |-> l, upper |-> u, delta |-> 0, mode |-> m, t1 |-> <<>>, t2 |-> <<>>,
            nsc |-> s, nrm |-> r, mdv |-> d, chi |-> [n \in NS |-> IF n \in W THEN c[n] ELSE 2]] :
              m \in {"default", "flagonly"}, s \in [W -> 0..2], r \in [W -> 0..2], d \in [W -> (IF Wide THEN 0..2 ELSE 0..1)],
              c \in [W -> (IF Wide THEN 1..3 ELSE 1..2)]}
        : u \in CUp} : l \in CLo}

Win == {n \in NS : n >= lo /\ n <= hi}

\* l.688-712 + _choose_methods/_suggest_using_default l.213-221/431-439: the limits are taken, an empty window is refused
CLimits ==
    /\ pc = "limits_done" /\ Part = "combine"
    /\ IF inp.mode = "nocomb"     \* several methods, no way of combining them: refused (after nothing else)
       THEN /\ out' = [kind |-> "ValueError", n |-> 0, lo |-> lo, hi |-> hi] /\ pc' = "done"
       ELSE IF lo >= hi
       THEN /\ out' = [kind |-> "ValueError", n |-> 0, lo |-> lo, hi |-> hi] /\ pc' = "done"
       ELSE /\ pc' = IF inp.mode \in {"default", "flagonly"} THEN "whittle" ELSE "score" /\ out' = out
    /\ UNCHANGED <<inp, lo, hi, mx, ms, top, pass>>

\* the best key of a table: sorted(d.items(), key=score, reverse=True)[0] - stable, so the lowest num_RC among the best
Best(t) == SetMin({n \in DOMAIN t : \A m \in DOMAIN t : t[n] >= t[m]})
\* rank of n in sorted(d.items(), key=score, reverse=True): stable, ties keep ascending num_RC
RankOf(t, n) == Cardinality({m \in DOMAIN t : t[m] > t[n] \/ (t[m] = t[n] /\ m < n)})
ExpMilli(i) == IF i = 0 THEN 1000 ELSE IF i = 1 THEN 368 ELSE 135      \* 1000*exp(-i), i <= 2
TabSeq == IF inp.mode \in {"unknown", "unknownsum"} THEN <<inp.t1, inp.t1, inp.t1, inp.t1, inp.t1, inp.t1>>   \* no known id: all six methods
          ELSE IF inp.t2 = <<>> THEN <<inp.t1>> ELSE <<inp.t1, inp.t2>>
SumOver(f(_), k) == LET RECURSIVE S(_) S(i) == IF i = 0 THEN 0 ELSE f(i) + S(i - 1) IN S(k)

\* winner of sorted(tests, key=(total, -log chi), reverse=True)[0]: stable under reverse, so the lowest num_RC of the tied
WinnerMax(total) ==
    SetMin({n \in NS : \A m \in NS : total[n] > total[m] \/ (total[n] = total[m] /\ inp.chi[n] <= inp.chi[m])})

\* round(mean(a, b)) with Python's round-half-to-even
RoundHalfEven2(a, b) == IF (a + b) % 2 = 0 THEN (a + b) \div 2
                        ELSE IF ((a + b - 1) \div 2) % 2 = 0 THEN (a + b - 1) \div 2 ELSE (a + b + 1) \div 2

CScore ==
    /\ pc = "score"
    /\ LET T == TabSeq
           k == Len(T)
           sumT == [n \in NS |-> IF n \in Win THEN SumOver(LAMBDA i : T[i][n], k) ELSE 0]
           rnkT == [n \in NS |-> IF n \in Win THEN SumOver(LAMBDA i : ExpMilli(RankOf(T[i], n)), k) ELSE 0]
           target == RoundHalfEven2(Best(T[1]), Best(T[k]))
           dist(n) == IF n >= target THEN n - target ELSE target - n
           meanW == SetMin({n \in NS : \A m \in NS : dist(n) < dist(m) \/ (dist(n) = dist(m) /\ inp.chi[n] <= inp.chi[m])})
           w == IF inp.mode = "mean" THEN meanW
                ELSE IF inp.mode = "ranking" THEN WinnerMax(rnkT)
                ELSE WinnerMax(sumT)
       IN out' = [kind |-> "ok", n |-> w, lo |-> lo, hi |-> hi]
    /\ pc' = "done"
    /\ UNCHANGED <<inp, lo, hi, mx, ms, top, pass>>

\* _suggest_using_default l.493-538: four passes; scores are kept x20 (sign changes + 0.1 * normalised offset in halves)
Norm2(t, n, invert) ==       \* 2 * (value - min) / (max - min), or 2 - that
    LET mn == SetMin({t[m] : m \in DOMAIN t})
        sp == SetMax({t[m] : m \in DOMAIN t}) - mn
        v  == (2 * (t[n] - mn)) \div sp
    IN IF invert THEN 2 - v ELSE v
Spread(t) == SetMax({t[m] : m \in DOMAIN t}) - SetMin({t[m] : m \in DOMAIN t})
OffsetTable(p) == IF p = 2 THEN inp.nrm ELSE IF p = 3 THEN inp.mdv ELSE [n \in Win |-> inp.chi[n]]
ExactHalves(t) == Spread(t) \in {0, 1, 2}

CWhittle ==
    /\ pc = "whittle"
    /\ LET base == IF pass = 0 THEN [n \in Win |-> 20 * inp.nsc[n]] ELSE ms
           p == pass + 1
           t == OffsetTable(p)
           sc == IF p = 1 \/ Spread(t) = 0 THEN base
                 ELSE [n \in Win |-> base[n] + Norm2(t, n, p = 3)]
           mn == SetMin({sc[n] : n \in Win})
           tc == {n \in Win : sc[n] = mn}
       IN /\ ms' = sc /\ top' = tc /\ pass' = p
          /\ pc' = IF Cardinality(tc) = 1 \/ p = 4 THEN "better" ELSE "whittle"
    /\ UNCHANGED <<inp, lo, hi, mx, out>>

\* l.540-583: ties go to the lowest num_RC; then a lower num_RC with a better fit and no more sign changes is preferred
CBetter ==
    /\ pc = "better"
    /\ LET s == SetMin(top)
           cands == {n \in Win : n < s /\ inp.chi[n] < inp.chi[s] /\ inp.nsc[n] <= inp.nsc[s]}
           \* sorted(log_pseudo_chisqrs.items(), key=value): stable, ascending num_RC among equal fits
           w == IF cands = {} THEN s ELSE ArgMinChi(inp.chi, cands)
       IN out' = [kind |-> "ok", n |-> w, lo |-> lo, hi |-> hi]
    /\ pc' = "done"
    /\ UNCHANGED <<inp, lo, hi, mx, ms, top, pass>>

Init ==
    /\ inp \in (IF Part = "limits" THEN LimitInputs ELSE CombineInputs)
    /\ pc = "limits" /\ lo = 0 /\ hi = 0 /\ mx = 0 /\ ms = <<>> /\ top = {} /\ pass = 0 /\ out = None

Next == LBothManual \/ LEstimateLower \/ LEstimateUpper \/ LFix \/ LBestBelow \/ LDelta \/ LReturn
        \/ CLimits \/ CScore \/ CWhittle \/ CBetter
Spec == Init /\ [][Next]_vars

(***************************************************************************)
(* Properties                                                              *)
(***************************************************************************)
Returned == pc = "done" /\ out.kind = "ok"

\* C10's discrete clause: the suggested number of RC elements lies inside the limits that are reported with it,
\* and it is one of the tests that were handed in
SuggestedWithinLimits == (Returned /\ Part = "combine") => (out.lo <= out.n /\ out.n <= out.hi /\ out.n \in NS)
WindowNotEmpty        == (Returned /\ Part = "combine") => out.lo < out.hi
\* C18: refused with a ValueError or returned - no unhandled index error.  Holds for contiguous lists of tests;
\* the deviation for a user-given list with a gap is named (GapIndexError) and confirmed on the code.
NoCrash       == pc = "done" => out.kind \in {"ok", "ValueError"}
GapIndexError == (pc = "done" /\ out.kind = "IndexError") => ~Contiguous
\* suggest_num_RC_limits on its own: what is returned is an ordered window whose upper end is a test index range
LimitsOrdered == (Returned /\ Part = "limits" /\ ~(ManLo /\ ManHi)) => (out.lo < out.hi \/ inp.delta > 0)
\* (the lower limit can fall below the first test when the transition estimator reports an end point at or below
\*  its own transition point: lo = max_x - 1; nothing downstream needs lo >= First, so it is not a property)
LimitsUpperInRange == (Returned /\ Part = "limits" /\ ~ManHi) => out.hi <= Last
\* the whittling never ends without a candidate (the code's `raise NotImplementedError()` is unreachable)
TopNeverEmpty == pc = "better" => top # {}
\* the exact-halves assumption that makes the float arithmetic of the replay exact
GridExact == (Part = "combine" /\ inp.mode \in {"default", "flagonly"} /\ inp.nsc # <<>>) =>
             (ExactHalves(inp.nrm) /\ ExactHalves(inp.mdv))
=============================================================================
