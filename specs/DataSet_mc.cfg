\* exhaustive invariant check, no history variable
SPECIFICATION Spec
CONSTANTS
    N = 3
    MaxHist = 4
    MaxShift = 24
    Record = FALSE
INVARIANT TypeOK
INVARIANT Descending
INVARIANT Partition
INVARIANT OrderInsensitive
