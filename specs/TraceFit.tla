------------------------------- MODULE TraceFit -------------------------------
(***************************************************************************)
(* Validates recorded fit_circuit runs (code -> spec) against Fit.tla.     *)
(* TRACE_FILE: JSON list of traces, each a one-element list [fit event].   *)
(* Registers: tid -> 1 if FitOK held, N + tid -> 1 if RecoveryOK held.     *)
(***************************************************************************)
EXTENDS Fit, Json, IOUtils, TLCExt

Traces == JsonDeserialize(IOEnv.TRACE_FILE)
N == Len(Traces)
VARIABLES tid, l
tvars == <<tid, l>>
Ev == Traces[tid][l]

TraceInit == tid \in 1..N /\ l = 1
Consume ==
    /\ l <= Len(Traces[tid]) /\ Ev.ev = "fit"
    /\ FitOK(Ev)
    /\ RecoveryOK(Ev)
    /\ l' = l + 1 /\ tid' = tid
TraceSpec == TraceInit /\ [][Consume]_tvars

ASSUME \A t \in 1..N : TLCSet(t, 0)
Track == (l - 1 > TLCGet(tid) => TLCSet(tid, l - 1))
Report ==
    /\ \A t \in 1..N : (TLCGet(t) < Len(Traces[t]) =>
            PrintT(<<"REJECT", t, IF FitOK(Traces[t][1]) THEN "recovery" ELSE "invariants">>))
    /\ PrintT(<<"VALIDATED", N>>)
==============================================================================
